package main

import (
	"encoding/json"
	"fmt"
	"os"
	"path/filepath"
	"regexp"
	"sort"
	"strings"
)

type failure struct {
	o      *Obligation
	reason string
	replay *ReplayResult
	known  *knownFinding
	file   string
	fnErr  string
}

func globMatch(pat, s string) bool {
	if pat == s {
		return true
	}
	if !strings.Contains(pat, "*") {
		return false
	}
	re := "^" + strings.ReplaceAll(regexp.QuoteMeta(pat), `\*`, ".*") + "$"
	ok, _ := regexp.MatchString(re, s)
	return ok
}

func buildReport(id, tier string, seed int, claim *Claim, results []*FnResult, all []*Obligation, stats map[string]*solverStat, internalErrs []string, engines []*Engine, repo string, wall float64, list bool) int {
	known := loadKnown()
	var fails []*failure
	nObl, nDis, nCover, nCoverOK, nCoverUnknown := 0, 0, 0, 0, 0
	solverTime := 0.0
	byBackend := map[string]int{}
	for _, o := range all {
		solverTime += o.Secs
		if o.Expect == "sat" {
			nCover++
			switch o.Verdict {
			case "sat":
				nCoverOK++
			case "unsat":
				// a call-site cover ("after.<callee>.<n>") is a finding only if the path was alive before the
				// callee's postconditions were assumed ("before.<callee>.<n>" satisfiable): dead code is not vacuity
				if i := strings.Index(o.Name, "::cover.after."); i >= 0 {
					alive := false
					for _, b := range all {
						if b.Name == o.Name[:i]+"::cover.before."+o.Name[i+len("::cover.after."):] && b.Verdict == "sat" {
							alive = true
						}
					}
					if !alive {
						nCoverUnknown++
						continue
					}
				}
				if strings.Contains(o.Name, "::cover.before.") {
					nCoverUnknown++ // an unreachable call site
					continue
				}
				fails = append(fails, &failure{o: o, reason: "vacuous: the assumptions at this point are contradictory (cover query is unsat)"})
			default:
				nCoverUnknown++
			}
			continue
		}
		nObl++
		if o.Verdict == "unsat" {
			nDis++
			byBackend[o.Solver]++
			continue
		}
		r := "solver verdict " + o.Verdict
		if o.Verdict == "sat" {
			r = "refuted by the solver (counterexample model available)"
		}
		if o.Hyp {
			r += "; this obligation is outside the kinds this claim consists of, but the claimed obligations of the function are proved under it as a hypothesis, so they are not established"
		}
		fails = append(fails, &failure{o: o, reason: r})
	}
	for _, r := range results {
		if r.Err != nil {
			name := r.Key
			if i := strings.LastIndex(name, "/"); i >= 0 {
				name = name[i+1:]
			}
			if r.Inst != "" {
				name += "[" + r.Inst + "]"
			}
			o := &Obligation{Name: name + "::translation", Kind: "translation", Verdict: "error", Output: r.Err.Error(), Fn: name}
			nObl++
			fails = append(fails, &failure{o: o, reason: "function could not be brought into the verified subset: " + r.Err.Error()})
		}
	}
	for _, ie := range internalErrs {
		o := &Obligation{Name: "load::packages", Kind: "load", Verdict: "error", Output: ie}
		nObl++
		fails = append(fails, &failure{o: o, reason: ie})
	}
	if len(results) == 0 && len(internalErrs) == 0 {
		o := &Obligation{Name: "claim::no-functions", Kind: "load", Verdict: "error", Output: "no contract matched the claim's function patterns"}
		nObl++
		fails = append(fails, &failure{o: o, reason: o.Output})
	}
	// known findings
	nKnown := 0
	for _, f := range fails {
		for i := range known {
			k := &known[i]
			if k.Prop == id && globMatch(k.Obl, f.o.Name) {
				f.known = k
				nKnown++
				break
			}
		}
	}
	// replay + report
	replayDir := filepath.Join(verifDir, "out", id, "replay")
	os.MkdirAll(replayDir, 0o755)
	violations := 0
	sort.Slice(fails, func(i, j int) bool { return fails[i].o.Name < fails[j].o.Name })
	nReplayed, nReplayConfirmed := 0, 0
	for _, f := range fails {
		if claim.Replay != "" && (f.o.Expect == "unsat" || f.o.Kind == "translation") && f.known == nil {
			f.replay = runReplay(claim.Replay, f.o, repo, engines)
			if f.replay != nil {
				nReplayed++
				if f.replay.Confirmed {
					nReplayConfirmed++
				}
			}
		}
		rf := filepath.Join(replayDir, mangle(strings.ReplaceAll(f.o.Name, "::", "__"))+".json")
		doc := map[string]any{
			"property": id, "obligation": f.o.Name, "kind": f.o.Kind, "reason": f.reason, "verdict": f.o.Verdict,
			"solver": f.o.Solver, "solver_output": truncate(f.o.Output, 4000), "smt_file": f.o.File, "note": f.o.Note,
			"position": f.o.Pos.String(), "model": f.o.Model,
		}
		if f.replay != nil {
			doc["replay"] = f.replay
		}
		b, _ := json.MarshalIndent(doc, "", " ")
		os.WriteFile(rf, b, 0o644)
		f.file = rf
		if f.known != nil {
			fmt.Printf("KNOWN-FINDING: property=%s obligation=%s %s\n", id, f.o.Name, f.known.Text)
			continue
		}
		violations++
		suffix := ""
		if f.replay == nil || !f.replay.Confirmed {
			suffix = " no-failing-input-found"
		}
		fmt.Printf("VIOLATION property=%s replay=%s obligation=%s%s\n", id, rf, f.o.Name, suffix)
		fmt.Printf("  reason: %s\n", f.reason)
		if f.o.Note != "" {
			fmt.Printf("  clause: %s\n", f.o.Note)
		}
		if f.o.Pos.IsValid() {
			fmt.Printf("  at: %s\n", f.o.Pos)
		}
		if f.replay != nil {
			fmt.Printf("  replay: confirmed=%v %s\n", f.replay.Confirmed, f.replay.Summary)
		}
	}
	if list {
		for _, o := range all {
			fmt.Printf("%-8s %-7s %-14s %6.2fs %s\n", o.Expect, o.Verdict, o.Solver, o.Secs, o.Name)
		}
	}
	// evidence
	var fuc []map[string]any
	assumed := map[string]bool{}
	abstr := map[string]bool{}
	fnObl := map[string][2]int{}
	for _, o := range all {
		if o.Expect != "unsat" {
			continue
		}
		c := fnObl[o.Fn]
		c[0]++
		if o.Verdict == "unsat" {
			c[1]++
		}
		fnObl[o.Fn] = c
	}
	for _, r := range results {
		name := r.Key
		if i := strings.LastIndex(name, "/"); i >= 0 {
			name = name[i+1:]
		}
		if r.Inst != "" {
			name += "[" + r.Inst + "]"
		}
		m := map[string]any{"function": r.Key, "instantiation": r.Inst, "obligations": fnObl[name][0], "discharged": fnObl[name][1], "loops": r.Loops, "abstractions": r.Abstr, "assumed_contracts_used": r.Trusted}
		if r.Err != nil {
			m["error"] = r.Err.Error()
		}
		fuc = append(fuc, m)
		for _, t := range r.Trusted {
			assumed[t] = true
		}
		for _, a := range r.Abstr {
			abstr[a] = true
		}
	}
	var samples []map[string]any
	for i, o := range all {
		if len(samples) >= 8 {
			break
		}
		if o.Expect == "unsat" && o.File != "" && (i%((len(all)/8)+1) == 0) {
			samples = append(samples, map[string]any{"obligation": o.Name, "verdict": o.Verdict, "solver": o.Solver, "secs": round2(o.Secs), "clause": o.Note, "smt_excerpt": excerpt(o.smt)})
		}
	}
	if len(samples) == 0 {
		for _, o := range all {
			if len(samples) < 3 {
				samples = append(samples, map[string]any{"obligation": o.Name, "verdict": o.Verdict, "solver": o.Solver, "clause": o.Note})
			}
		}
	}
	backends := map[string]any{}
	for s, st := range stats {
		backends[s] = map[string]any{"calls": st.Calls, "decided": st.Decided, "secs": round2(st.Secs)}
	}
	var trusted []string
	for t := range assumed {
		trusted = append(trusted, "assumed contract: "+t)
	}
	sort.Strings(trusted)
	trusted = append(trusted, "govc (SSA -> SMT translation, /verif/govc)", "golang.org/x/tools/go/ssa v0.29.0", "z3 4.8.12 / z3 5.1.0 / cvc5 1.0.3", "int/uint are 64 bit (amd64)")
	var abs []string
	for a := range abstr {
		abs = append(abs, a)
	}
	sort.Strings(abs)
	var failedNames []map[string]any
	for _, f := range fails {
		m := map[string]any{"obligation": f.o.Name, "verdict": f.o.Verdict, "reason": f.reason, "replay_file": f.file, "known_finding": f.known != nil}
		failedNames = append(failedNames, m)
	}
	loadSecs := 0.0
	for _, e := range engines {
		loadSecs += e.loadSecs
	}
	cov := map[string]any{
		"obligations":                    nObl - nKnown,
		"discharged":                     nDis,
		"checker_cmd":                    fmt.Sprintf("./check %s %s", id, tier),
		"trusted_base":                   trusted,
		"samples":                        samples,
		"functions_under_contract":       fuc,
		"backends":                       backends,
		"discharged_by_backend":          byBackend,
		"solver_time_s":                  round2(solverTime),
		"load_time_s":                    round2(loadSecs),
		"vacuity_covers":                 map[string]int{"total": nCover, "sat": nCoverOK, "undecided": nCoverUnknown},
		"known_finding_obligations":      nKnown,
		"failed":                         failedNames,
		"abstractions":                   abs,
		"not_decided_clauses":            claim.NotDecided,
		"bounded":                        claim.Bounded,
		"replays_run":                    nReplayed,
		"replays_confirmed_on_real_code": nReplayConfirmed,
		"explanation":                    "every obligation is generated from the SSA of /repo's current working tree and discharged by an SMT solver (unsat of the negated VC); covers are satisfiability checks of the assumptions (vacuity guard)",
	}
	ev := map[string]any{
		"property_id": id, "tier": tier, "seed": seed, "level": "proof", "coverage": cov,
		"assumptions": append(append([]string{}, claim.Assumptions...), abs...), "wall_s": round2(wall), "violations": violations,
	}
	os.MkdirAll(filepath.Join(verifDir, "evidence"), 0o755)
	b, _ := json.MarshalIndent(ev, "", " ")
	os.WriteFile(filepath.Join(verifDir, "evidence", id+".json"), b, 0o644)
	fmt.Printf("%s %s: %d obligations, %d discharged, %d known findings, %d violations, %d/%d covers sat, %d functions, solver %.1fs, wall %.1fs\n",
		id, tier, nObl, nDis, nKnown, violations, nCoverOK, nCover, len(results), solverTime, wall)
	if violations > 0 {
		return 1
	}
	return 0
}

func round2(f float64) float64 { return float64(int(f*100+0.5)) / 100 }

func truncate(s string, n int) string {
	if len(s) > n {
		return s[:n] + "…"
	}
	return s
}

func excerpt(smt string) string {
	lines := strings.Split(smt, "\n")
	// skip the fixed prelude; show the last lines (the VC proper)
	n := len(lines)
	from := n - 14
	if from < 0 {
		from = 0
	}
	return truncate(strings.Join(lines[from:], "\n"), 1500)
}
