package main

import (
	"os"
	"sort"
	"fmt"
	"go/constant"
	"go/types"
	"math/big"
	"strings"
)

// SVal: value of a spec expression.
type SVal struct {
	S       string
	T       types.Type // Go type when the value is a Go value; nil for mathematical values
	Sort    string
	P       *Ptr   // location of this value (struct values embedded in the heap, fields)
	Tgt     *Ptr   // for pointer values: static description of the pointee, if known
	Box     string // interface values: the boxed term, if statically known
	BoxSort string
	TypeArg types.Type // when the expression denotes a type
	Nil     bool
	FnV     *Val // function-typed argument that is a closure literal of the caller (cbres)
}

type Env struct {
	t           *FnTrans
	vars        map[string]SVal
	st          *State // state for heap reads
	old         *State // state for old()
	local       func(name string) (SVal, bool)
	subst       map[string]types.Type // callee type args
	pkg         *types.Package
	bound       map[string]SVal
	selfAlloc0  string // $alloc at entry of the contract's function (for fresh())
	noLocks     bool   // lock predicates are evaluated for a goroutine that holds no lock (opt anytime callbacks)
	noOldSwitch bool
	self        bool // the environment of the function's own contract (its ghost locals are visible)
}

func (e *Env) withState(st *State) *Env {
	n := *e
	n.st = st
	return &n
}

func (e *Env) errf(x *Expr, f string, a ...any) {
	e.t.fail("spec: %s: %s", x.String(), fmt.Sprintf(f, a...))
}

// heap read in env state
func (e *Env) inState(f func() string) string {
	save := e.t.cur
	e.t.cur = e.st
	defer func() { e.t.cur = save }()
	return f()
}

func (e *Env) evalBool(x *Expr) string {
	v := e.eval(x)
	if v.Sort != "Bool" {
		e.errf(x, "expected Bool, got %s", v.Sort)
	}
	return v.S
}

func (e *Env) evalInt(x *Expr) string {
	v := e.eval(x)
	if v.Sort != "Int" {
		e.errf(x, "expected Int, got %s", v.Sort)
	}
	return v.S
}

func (e *Env) goVal(s string, T types.Type) SVal {
	return SVal{S: s, T: T, Sort: e.t.sortOf(T)}
}

func (e *Env) resolveT(T types.Type) types.Type {
	if e.subst != nil {
		if tp, ok := T.(*types.TypeParam); ok {
			if r, ok := e.subst[tp.Obj().Name()]; ok {
				return r
			}
		}
	}
	return e.t.resolve(T)
}

var basicTypes = map[string]types.Type{
	"int8": types.Typ[types.Int8], "int16": types.Typ[types.Int16], "int32": types.Typ[types.Int32], "int64": types.Typ[types.Int64], "int": types.Typ[types.Int],
	"uint8": types.Typ[types.Uint8], "uint16": types.Typ[types.Uint16], "uint32": types.Typ[types.Uint32], "uint64": types.Typ[types.Uint64], "uint": types.Typ[types.Uint],
	"float32": types.Typ[types.Float32], "float64": types.Typ[types.Float64], "byte": types.Typ[types.Uint8], "bool": types.Typ[types.Bool], "string": types.Typ[types.String], "uintptr": types.Typ[types.Uintptr],
}

func (e *Env) lookupType(name string) types.Type {
	if e.subst != nil {
		if r, ok := e.subst[name]; ok {
			return r
		}
	}
	if r, ok := e.t.subst[name]; ok && e.subst == nil {
		return r
	}
	if b, ok := basicTypes[name]; ok {
		return b
	}
	if e.pkg != nil {
		if o := e.pkg.Scope().Lookup(name); o != nil {
			if tn, ok := o.(*types.TypeName); ok {
				return tn.Type()
			}
		}
	}
	if e.subst == nil {
		// type parameters in scope of the function under contract
		if tp := e.t.typeParam(name); tp != nil {
			return tp
		}
	}
	return nil
}

func (e *Env) lookup(x *Expr) SVal {
	name := x.Name
	if v, ok := e.bound[name]; ok {
		return v
	}
	if v, ok := e.vars[name]; ok {
		return v
	}
	switch name {
	case "true", "false":
		return SVal{S: name, Sort: "Bool"}
	case "nil":
		return SVal{S: "0", Sort: "Int", Nil: true}
	case "MaxInt64":
		return SVal{S: num(intInfo{64, true}.max()), Sort: "Int"}
	case "MinInt64":
		return SVal{S: num(intInfo{64, true}.min()), Sort: "Int"}
	case "MaxUint64":
		return SVal{S: num(intInfo{64, false}.max()), Sort: "Int"}
	case "MaxUint32":
		return SVal{S: num(intInfo{32, false}.max()), Sort: "Int"}
	case "MaxUint16":
		return SVal{S: num(intInfo{16, false}.max()), Sort: "Int"}
	case "MaxUint8":
		return SVal{S: num(intInfo{8, false}.max()), Sort: "Int"}
	case "MaxInt32":
		return SVal{S: num(intInfo{32, true}.max()), Sort: "Int"}
	case "$alloc":
		e.t.comp("$alloc", "Int")
		return SVal{S: e.inState(func() string { return e.t.get("$alloc") }), Sort: "Int"}
	}
	if e.local != nil {
		if v, ok := e.local(name); ok {
			return v
		}
	}
	// ghost locals of the function under proof
	if e.self && e.t.ct != nil {
		if s, ok := e.t.ct.GhostLocal[name]; ok {
			c := e.t.comp("GL."+name, s)
			return SVal{S: e.inState(func() string { return e.t.get(c) }), Sort: s}
		}
	}
	// ghost globals
	if e.pkg != nil {
		if s, ok := e.t.eng.specs.Ghosts[e.pkg.Path()+"."+name]; ok {
			c := e.t.comp("GG."+e.pkg.Path()+"."+name, s)
			return SVal{S: e.inState(func() string { return e.t.get(c) }), Sort: s}
		}
		if o := e.pkg.Scope().Lookup(name); o != nil {
			switch o := o.(type) {
			case *types.Const:
				return e.constVal(o.Val(), o.Type())
			case *types.Var:
				full := e.pkg.Path() + "." + name
				if e.t.eng.specs.Sentinels[full] || e.t.eng.isSentinel(o) {
					return SVal{S: e.t.sentinel(full), T: o.Type(), Sort: "Int"}
				}
				p := e.t.globalPtr(full, o.Type())
				return SVal{S: e.inState(func() string { return e.t.load(p) }), T: o.Type(), Sort: e.t.sortOf(o.Type()), P: p}
			case *types.TypeName:
				return SVal{TypeArg: o.Type()}
			}
		}
	}
	if T := e.lookupType(name); T != nil {
		return SVal{TypeArg: T}
	}
	e.errf(x, "unknown identifier %q", name)
	return SVal{}
}

func (e *Env) constVal(v constant.Value, T types.Type) SVal {
	switch v.Kind() {
	case constant.Int:
		n, _ := new(big.Int).SetString(v.ExactString(), 10)
		return SVal{S: num(n), T: T, Sort: "Int"}
	case constant.Bool:
		return SVal{S: fmt.Sprint(constant.BoolVal(v)), T: T, Sort: "Bool"}
	case constant.String:
		return SVal{S: e.t.strConst(constant.StringVal(v)), T: T, Sort: "Str"}
	}
	e.t.fail("spec: unsupported constant kind")
	return SVal{}
}

func (e *Env) eval(x *Expr) SVal {
	switch x.Op {
	case "int":
		n, ok := new(big.Int).SetString(x.Name, 0)
		if !ok {
			e.errf(x, "bad integer")
		}
		return SVal{S: num(n), Sort: "Int"}
	case "str":
		return SVal{S: e.t.strConst(x.Name), Sort: "Str"}
	case "id":
		return e.lookup(x)
	case "un":
		switch x.Name {
		case "!":
			return SVal{S: not(e.evalBool(x.Args[0])), Sort: "Bool"}
		case "-":
			return SVal{S: app("-", e.evalInt(x.Args[0])), Sort: "Int"}
		case "*":
			v := e.eval(x.Args[0])
			pt, ok := e.resolveT(v.T).Underlying().(*types.Pointer)
			if v.T == nil || !ok {
				e.errf(x, "dereference of non-pointer")
			}
			p := v.Tgt
			if p == nil {
				p = e.t.ptrFromRef(v.S, pt.Elem())
			}
			r := SVal{S: e.inState(func() string { return e.t.load(p) }), T: pt.Elem(), Sort: e.t.sortOf(pt.Elem()), P: p}
			e.groundRange(r)
			return r
		}
	case "bin":
		return e.evalBin(x)
	case "ite":
		c := e.evalBool(x.Args[0])
		a, b := e.eval(x.Args[1]), e.eval(x.Args[2])
		return SVal{S: ite(c, a.S, b.S), Sort: a.Sort, T: a.T}
	case "forall", "exists":
		saved := e.bound
		nb := map[string]SVal{}
		for k, v := range saved {
			nb[k] = v
		}
		var decl []string
		for _, b := range x.Vars {
			sortName := sortAlias(b.Sort)
			var T types.Type
			if strings.HasPrefix(b.Sort, "*") {
				if tt := e.lookupType(b.Sort[1:]); tt != nil {
					T = types.NewPointer(tt)
					sortName = "Int"
				} else {
					e.errf(x, "unknown type %s", b.Sort)
				}
			} else if tt := e.lookupType(b.Sort); tt != nil {
				T = tt
				sortName = e.t.sortOf(tt)
			}
			vn := q("bv$" + b.Name)
			if strings.HasPrefix(b.Sort, "*") {
				vn = q("bv$p_" + b.Name) // ranges over objects: instantiated at the function's pointer values (engine hint)
			}
			nb[b.Name] = SVal{S: vn, Sort: sortName, T: T}
			decl = append(decl, fmt.Sprintf("(%s %s)", vn, sortName))
		}
		e.bound = nb
		body := e.evalBool(x.Args[0])
		e.bound = saved
		return SVal{S: fmt.Sprintf("(%s (%s) %s)", x.Op, strings.Join(decl, " "), body), Sort: "Bool"}
	case "sel":
		return e.evalSel(x)
	case "idx":
		return e.evalIdx(x)
	case "call":
		return e.evalCall(x)
	}
	e.errf(x, "unsupported expression form %s", x.Op)
	return SVal{}
}

func (e *Env) evalBin(x *Expr) SVal {
	op := x.Name
	switch op {
	case "&&":
		return SVal{S: and(e.evalBool(x.Args[0]), e.evalBool(x.Args[1])), Sort: "Bool"}
	case "||":
		return SVal{S: or(e.evalBool(x.Args[0]), e.evalBool(x.Args[1])), Sort: "Bool"}
	case "==>":
		return SVal{S: implies(e.evalBool(x.Args[0]), e.evalBool(x.Args[1])), Sort: "Bool"}
	case "<==>":
		return SVal{S: eq(e.evalBool(x.Args[0]), e.evalBool(x.Args[1])), Sort: "Bool"}
	}
	a, b := e.eval(x.Args[0]), e.eval(x.Args[1])
	switch op {
	case "==", "!=":
		var s string
		switch {
		case a.Nil && b.Sort == "Slice":
			s = eq(app("s.base", b.S), "0")
		case b.Nil && a.Sort == "Slice":
			s = eq(app("s.base", a.S), "0")
		default:
			if a.Sort != b.Sort {
				e.errf(x, "comparison of %s with %s", a.Sort, b.Sort)
			}
			s = eq(a.S, b.S)
		}
		if op == "!=" {
			s = not(s)
		}
		return SVal{S: s, Sort: "Bool"}
	case "<", "<=", ">", ">=":
		if a.Sort != "Int" || b.Sort != "Int" {
			e.errf(x, "ordering on non-Int (%s, %s)", a.Sort, b.Sort)
		}
		return SVal{S: app(op, a.S, b.S), Sort: "Bool"}
	case "+", "-", "*":
		if a.Sort != "Int" || b.Sort != "Int" {
			e.errf(x, "arithmetic on non-Int (%s, %s)", a.Sort, b.Sort)
		}
		return SVal{S: app(op, a.S, b.S), Sort: "Int"}
	case "div":
		return SVal{S: app("div", a.S, b.S), Sort: "Int"}
	case "mod", "%":
		return SVal{S: app("mod", a.S, b.S), Sort: "Int"}
	case "/": // truncated quotient, as in Go
		return SVal{S: truncDiv(a.S, b.S), Sort: "Int"}
	}
	e.errf(x, "unknown operator %s", op)
	return SVal{}
}

func (e *Env) evalSel(x *Expr) SVal {
	// rangeint.iter: the hidden counter of a `for range n` loop (iterations started so far, 0-based)
	if x.Args[0].Op == "id" && x.Args[0].Name == "rangeint" && x.Name == "iter" && e.local != nil {
		if v, ok := e.local("rangeint.iter"); ok {
			return v
		}
	}
	// package-qualified identifier?
	if x.Args[0].Op == "id" {
		if _, isVar := e.vars[x.Args[0].Name]; !isVar {
			if _, isB := e.bound[x.Args[0].Name]; !isB {
				if pkg := e.t.eng.findPkg(x.Args[0].Name, e.pkg); pkg != nil {
					if e.local == nil || !e.hasLocal(x.Args[0].Name) {
						sub := *e
						sub.pkg = pkg
						sub.local = nil
						return sub.lookup(&Expr{Op: "id", Name: x.Name})
					}
				}
			}
		}
	}
	base := e.eval(x.Args[0])
	if base.T == nil {
		e.errf(x, "field selection on a non-Go value")
	}
	T := e.resolveT(base.T)
	var p *Ptr
	var ST types.Type
	if pt, ok := T.Underlying().(*types.Pointer); ok {
		ST = e.resolveT(pt.Elem())
		p = base.Tgt
		if p == nil {
			p = e.t.ptrFromRef(base.S, ST)
		}
	} else if _, ok := T.Underlying().(*types.Struct); ok {
		ST = T
		p = base.P // may be nil: pure struct value
	} else {
		e.errf(x, "field selection on %s", T)
	}
	st, ok := ST.Underlying().(*types.Struct)
	if !ok {
		e.errf(x, "field selection on non-struct %s", ST)
	}
	// real field (possibly promoted through embedded structs)
	if path, ft := findField(st, x.Name); path != nil {
		if p != nil {
			for _, i := range path {
				p = e.t.fieldPtr(p, i)
			}
			r := SVal{S: e.inState(func() string { return e.t.load(p) }), T: ft, Sort: e.t.sortOf(ft), P: p}
			e.groundRange(r)
			return r
		}
		s := base.S
		cur := ST
		for _, i := range path {
			cs := cur.Underlying().(*types.Struct)
			s = app(q(e.t.sortOf(cur)+"."+fieldAcc(cs, i)), s)
			cur = e.resolveT(cs.Field(i).Type())
			if pp, ok := cur.Underlying().(*types.Pointer); ok && i != path[len(path)-1] {
				_ = pp
				e.errf(x, "promoted field through pointer in struct value")
			}
		}
		return SVal{S: s, T: ft, Sort: e.t.sortOf(ft)}
	}
	// ghost field
	if ts := e.t.eng.specs.Types[typeName(ST)]; ts != nil {
		if gs, ok := ts.GhostField[x.Name]; ok && p != nil {
			gs = e.t.ghostSort(gs, ST)
			c := e.t.comp(ghostCompName(originName(ST), x.Name, ts.GhostField[x.Name], gs), "(Array Int "+gs+")")
			ref := p.Ref
			if p.Kind != "obj" {
				ref = e.t.termOfOpt(Val{P: p}) // a struct embedded by value: its ghost fields live at its address
			}
			return SVal{S: e.inState(func() string { return app("select", e.t.get(c), ref) }), Sort: gs}
		}
	}
	e.errf(x, "no field %s in %s", x.Name, ST)
	return SVal{}
}

// groundRange emits the Go-typing range fact for a ground heap read (no bound variables).
func (e *Env) groundRange(v SVal) {
	if v.T == nil || v.Sort != "Int" || strings.Contains(v.S, "bv$") || strings.Contains(v.S, "sp$") {
		return
	}
	if ii, ok := intInfoOf(e.resolveT(v.T)); ok {
		key := "gr:" + v.S
		if !e.t.declared[key] {
			e.t.declared[key] = true
			e.t.emit("(assert " + ii.inRange(v.S) + ")")
		}
	}
}

func (e *Env) hasLocal(n string) bool {
	if e.local == nil {
		return false
	}
	defer func() { recover() }()
	_, ok := e.local(n)
	return ok
}

func findField(st *types.Struct, name string) ([]int, types.Type) {
	for i := 0; i < st.NumFields(); i++ {
		if st.Field(i).Name() == name {
			return []int{i}, st.Field(i).Type()
		}
	}
	for i := 0; i < st.NumFields(); i++ {
		f := st.Field(i)
		if f.Embedded() {
			if is, ok := f.Type().Underlying().(*types.Struct); ok {
				if p, ft := findField(is, name); p != nil {
					return append([]int{i}, p...), ft
				}
			}
		}
	}
	return nil, nil
}

func (e *Env) evalIdx(x *Expr) SVal {
	base := e.eval(x.Args[0])
	idx := e.eval(x.Args[1])
	if base.T != nil {
		T := e.resolveT(base.T)
		switch u := T.Underlying().(type) {
		case *types.Slice:
			es := e.t.sortOf(u.Elem())
			c := e.t.comp("E."+mangle(es), "(Array Int (Array Int "+es+"))")
			s := e.inState(func() string {
				return app("select", app("select", e.t.get(c), app("s.base", base.S)), app("+", app("s.off", base.S), idx.S))
			})
			r := SVal{S: s, T: u.Elem(), Sort: es}
			e.groundRange(r)
			return r
		case *types.Array:
			return SVal{S: app("select", base.S, idx.S), T: u.Elem(), Sort: e.t.sortOf(u.Elem())}
		case *types.Map:
			_, vc, _ := e.t.mapComps(u)
			s := e.inState(func() string { return app("select", app("select", e.t.get(vc), base.S), idx.S) })
			return SVal{S: s, T: u.Elem(), Sort: e.t.sortOf(u.Elem())}
		}
		e.errf(x, "indexing %s", T)
	}
	if strings.HasPrefix(base.Sort, "(Array ") {
		return SVal{S: app("select", base.S, idx.S), Sort: arrayElemSort(base.Sort)}
	}
	e.errf(x, "indexing a non-array (%s)", base.Sort)
	return SVal{}
}

// arrayElemSort: "(Array K V)" -> V
func arrayElemSort(s string) string {
	inner := s[len("(Array ") : len(s)-1]
	// skip key sort
	d := 0
	for i, c := range inner {
		if c == '(' {
			d++
		} else if c == ')' {
			d--
		} else if c == ' ' && d == 0 {
			return inner[i+1:]
		}
	}
	return ""
}

func arrayKeySort(s string) string {
	inner := s[len("(Array ") : len(s)-1]
	d := 0
	for i, c := range inner {
		if c == '(' {
			d++
		} else if c == ')' {
			d--
		} else if c == ' ' && d == 0 {
			return inner[:i]
		}
	}
	return ""
}

func (e *Env) typeArg(x *Expr) types.Type {
	if x.Op == "un" && x.Name == "*" {
		return types.NewPointer(e.typeArg(x.Args[0]))
	}
	if x.Op == "slicetype" {
		return types.NewSlice(e.typeArg(x.Args[0]))
	}
	if x.Op == "sel" && x.Args[0].Op == "id" {
		// pkg.Type
		if pkg := e.t.eng.findPkg(x.Args[0].Name, e.pkg); pkg != nil {
			if o := pkg.Scope().Lookup(x.Name); o != nil {
				if tn, ok := o.(*types.TypeName); ok {
					return tn.Type()
				}
			}
		}
	}
	if x.Op == "id" {
		if T := e.lookupType(x.Name); T != nil {
			return T
		}
	}
	if x.Op == "idx" && len(x.Args) >= 2 && (x.Args[0].Op == "id" || x.Args[0].Op == "sel") {
		// Generic[A, B]: a generic named type instantiated at type arguments
		if named, ok := e.typeArg(x.Args[0]).(*types.Named); ok && named.TypeParams().Len() == len(x.Args)-1 {
			var targs []types.Type
			for _, a := range x.Args[1:] {
				targs = append(targs, e.t.resolve(e.typeArg(a)))
			}
			if I, err := types.Instantiate(nil, named, targs, true); err == nil {
				return I
			}
		}
	}
	v := e.eval(x)
	if v.TypeArg == nil {
		e.errf(x, "type expected")
	}
	return v.TypeArg
}

func (e *Env) evalCall(x *Expr) SVal {
	t := e.t
	switch x.Name {
	case "old":
		if e.old == nil {
			e.errf(x, "old() not available here")
		}
		return e.withState(e.old).eval(x.Args[0])
	case "zero": // zero(T): the zero value of Go type T (also of a type parameter)
		T := e.typeArg(x.Args[0])
		if e.subst != nil {
			if tp, ok := T.(*types.TypeParam); ok {
				if r, ok := e.subst[tp.Obj().Name()]; ok {
					T = r
				}
			}
		}
		T = t.resolve(T)
		return SVal{S: t.zero(T), T: T, Sort: t.sortOf(T)}
	case "len", "cap":
		v := e.eval(x.Args[0])
		if v.Sort == "Slice" {
			return SVal{S: app("s."+x.Name, v.S), Sort: "Int"}
		}
		if v.Sort == "Str" {
			return SVal{S: app("slen", v.S), Sort: "Int"}
		}
		if v.T != nil {
			switch u := e.resolveT(v.T).Underlying().(type) {
			case *types.Map:
				_, _, lc := t.mapComps(u)
				return SVal{S: e.inState(func() string { return ite(eq(v.S, "0"), "0", app("select", t.get(lc), v.S)) }), Sort: "Int"} // a nil map has length 0
			case *types.Array:
				return SVal{S: fmt.Sprint(u.Len()), Sort: "Int"}
			}
		}
		e.errf(x, "len of %s", v.Sort)
	case "has": // has(m, k)
		m := e.eval(x.Args[0])
		k := e.eval(x.Args[1])
		mt, ok := e.resolveT(m.T).Underlying().(*types.Map)
		if !ok {
			e.errf(x, "has() on non-map")
		}
		dc, _, _ := t.mapComps(mt)
		return SVal{S: e.inState(func() string { return app("select", app("select", t.get(dc), m.S), k.S) }), Sort: "Bool"}
	case "fits":
		T := e.typeArg(x.Args[0])
		ii, ok := intInfoOf(e.resolveT(T))
		if !ok {
			e.errf(x, "fits: %s is not an integer type", T)
		}
		return SVal{S: ii.inRange(e.evalInt(x.Args[1])), Sort: "Bool"}
	case "minOf", "maxOf":
		T := e.typeArg(x.Args[0])
		ii, ok := intInfoOf(e.resolveT(T))
		if !ok {
			e.errf(x, "%s: not an integer type", x.Name)
		}
		if x.Name == "minOf" {
			return SVal{S: num(ii.min()), Sort: "Int"}
		}
		return SVal{S: num(ii.max()), Sort: "Int"}
	case "is":
		a := e.eval(x.Args[0])
		b := e.eval(x.Args[1])
		return SVal{S: app("err.is", a.S, b.S), Sort: "Bool"}
	case "visited": // visited(k [, n]): k has been produced by the (n-th, in source order) map range loop of this function
		k := e.eval(x.Args[0])
		comp := e.rangeGhost(x, ".visited", 1)
		return SVal{S: e.inState(func() string { return app("select", t.get(comp), k.S) }), Sort: "Bool"}
	case "isfunc": // isfunc(x, Type.Method | Func): x is statically that function, or the method value bound to a receiver
		v := e.eval(x.Args[0])
		want := exprPath(x.Args[1])
		if v.FnV == nil || v.FnV.Fn == nil || want == "" {
			if os.Getenv("GOVC_DEBUG_ISFUNC") != "" {
				fmt.Fprintf(os.Stderr, "isfunc: no static function value (FnV %v) want %q\n", v.FnV != nil, want)
			}
			return SVal{S: "false", Sort: "Bool"}
		}
		k := fnKey(v.FnV.Fn)
		if i := strings.LastIndex(k, "/"); i >= 0 {
			k = k[i+1:]
		}
		if i := strings.Index(k, "."); i >= 0 {
			k = k[i+1:]
		}
		bound := strings.HasSuffix(k, "$bound") // the wrapper of a method value: named after the method only
		k = strings.TrimSuffix(k, "$bound")
		if bound && strings.HasSuffix(want, "."+k) {
			k = want
		}
		if os.Getenv("GOVC_DEBUG_ISFUNC") != "" {
			fmt.Fprintf(os.Stderr, "isfunc: %q want %q\n", k, want)
		}
		if k == want {
			return SVal{S: "true", Sort: "Bool"}
		}
		return SVal{S: "false", Sort: "Bool"}
	case "visitedcount": // visitedcount([n]): number of keys produced so far by the (n-th) map range loop of this function
		comp := e.rangeGhost(x, ".count", 0)
		return SVal{S: e.inState(func() string { return t.get(comp) }), Sort: "Int"}
	case "aload": // aload(p): current value of the sync/atomic object p points to (sequential reading)
		v := e.eval(x.Args[0])
		n, ok := derefNamed(e.resolveT(v.T))
		if !ok || n.Obj().Pkg() == nil || n.Obj().Pkg().Path() != "sync/atomic" {
			e.errf(x, "aload of a non-atomic")
		}
		recv := Val{S: v.S}
		if _, isPtr := e.resolveT(v.T).Underlying().(*types.Pointer); !isPtr && v.P != nil {
			recv = Val{P: v.P} // atomic embedded by value
		}
		p, ok2 := t.atomicCell(recv, "sync/atomic."+n.Obj().Name()+".Load")
		if !ok2 {
			e.errf(x, "aload: unsupported atomic type")
		}
		RT := p.T
		if n.Obj().Name() == "Pointer" && n.TypeArgs() != nil && n.TypeArgs().Len() == 1 {
			RT = types.NewPointer(e.resolveT(n.TypeArgs().At(0)))
		}
		return SVal{S: e.inState(func() string { return t.load(p) }), T: RT, Sort: t.sortOf(p.T)}
	case "hasprefix": // hasprefix(s, p): p is a prefix of s (abstract byte strings)
		a, b := e.eval(x.Args[0]), e.eval(x.Args[1])
		return SVal{S: app("sprefix", b.S, a.S), Sort: "Bool"}
	case "cat":
		a, b := e.eval(x.Args[0]), e.eval(x.Args[1])
		return SVal{S: app("scat", a.S, b.S), Sort: "Str"}
	case "str": // str(b): the string with the bytes of slice b
		v := e.eval(x.Args[0])
		if v.Sort == "Str" {
			return v
		}
		return SVal{S: e.inState(func() string { return t.bytesToStr(v.S) }), Sort: "Str"}
	case "bitand":
		return SVal{S: app("bit.and", e.evalInt(x.Args[0]), e.evalInt(x.Args[1])), Sort: "Int"}
	case "cbres":
		// cbres(f, a...): the result of the pure callback f applied to a... . Where f is a closure literal of the caller
		// with a contract, a fresh value constrained by that contract's postconditions (instantiated at a...); otherwise
		// an uninterpreted function of f and the arguments
		fv := e.eval(x.Args[0])
		var as []SVal
		for _, a := range x.Args[1:] {
			as = append(as, e.eval(a))
		}
		if fv.FnV != nil && fv.FnV.Fn != nil {
			cf := fv.FnV.Fn
			cc := t.eng.specs.Funcs[fnKey(cf)]
			if cc != nil && len(cf.Params) == len(as) && cf.Signature.Results().Len() == 1 {
				cc.Used = true
				RT := t.resolve(cf.Signature.Results().At(0).Type())
				key := "cbres:" + fnKey(cf) + ":" + fv.S
				for _, a := range as {
					key += "|" + a.S
				}
				if r, ok := t.cbresCache[key]; ok {
					return SVal{S: r, T: RT, Sort: t.sortOf(RT)}
				}
				r := t.newConst("cbres", t.sortOf(RT))
				t.assume(t.rangeFact(r, RT))
				if t.cbresCache == nil {
					t.cbresCache = map[string]string{}
				}
				t.cbresCache[key] = r
				st := e.st
				if e.old != nil {
					st = e.old // the closure runs inside the callee: what it reads is taken from the call's pre-state
				}
				cenv := &Env{t: t, vars: map[string]SVal{}, st: st, old: st, pkg: cf.Pkg.Pkg, selfAlloc0: e.selfAlloc0}
				for j, f := range cf.FreeVars {
					if j < len(fv.FnV.Bnd) {
						T := t.resolve(f.Type())
						cenv.vars[f.Name()] = SVal{S: t.termOfOpt(fv.FnV.Bnd[j]), T: T, Sort: t.sortOf(T), Tgt: fv.FnV.Bnd[j].P}
					}
				}
				for j, p := range cf.Params {
					T := t.resolve(p.Type())
					cenv.vars[p.Name()] = SVal{S: as[j].S, T: T, Sort: t.sortOf(T)}
				}
				rv := SVal{S: r, T: RT, Sort: t.sortOf(RT)}
				cenv.vars["r0"], cenv.vars["result"] = rv, rv
				if n := cf.Signature.Results().At(0).Name(); n != "" && n != "_" {
					cenv.vars[n] = rv
				}
				for _, en := range cc.Ensures {
					t.assume(cenv.evalBool(en.E))
				}
				return rv
			}
		}
		var terms, sorts []string
		terms = append(terms, fv.S)
		for _, a := range as {
			terms = append(terms, a.S)
			sorts = append(sorts, a.Sort)
		}
		var RT types.Type
		if fv.T != nil {
			if sg, ok := e.resolveT(fv.T).Underlying().(*types.Signature); ok && sg.Results().Len() == 1 {
				RT = t.resolve(e.resolveT(sg.Results().At(0).Type()))
			}
		}
		if RT == nil {
			e.errf(x, "cbres: the first argument is not a function with one result")
		}
		rs := t.sortOf(RT)
		fn := cbresName(sorts, rs)
		t.declareFun(fn, append([]string{"Int"}, sorts...), rs)
		return SVal{S: app(fn, terms...), T: RT, Sort: rs}
	case "conv": // conv(T, x): the struct value x as a value of the Go type T (same underlying struct type)
		T := e.typeArg(x.Args[0])
		v := e.eval(x.Args[1])
		if v.T == nil {
			e.errf(x, "conv of a non-Go value")
		}
		if c, ok := t.convStruct(v.S, v.T, T); ok {
			return SVal{S: c, T: T, Sort: t.sortOf(T)}
		}
		return SVal{S: v.S, T: T, Sort: t.sortOf(T)}
	case "bitor":
		return SVal{S: app("bit.or", e.evalInt(x.Args[0]), e.evalInt(x.Args[1])), Sort: "Int"}
	case "pow2":
		return SVal{S: app("pow2", e.evalInt(x.Args[0])), Sort: "Int"}
	case "shl": // shl(v, k) = v * 2^k for 0 <= k <= 255 (mathematical)
		return SVal{S: app("mulpow2", e.evalInt(x.Args[0]), e.evalInt(x.Args[1])), Sort: "Int"}
	case "min", "max":
		a, b := e.evalInt(x.Args[0]), e.evalInt(x.Args[1])
		if x.Name == "min" {
			return SVal{S: ite(app("<=", a, b), a, b), Sort: "Int"}
		}
		return SVal{S: ite(app(">=", a, b), a, b), Sort: "Int"}
	case "fresh": // fresh(p): allocated during this call
		v := e.eval(x.Args[0])
		s := v.S
		if v.Sort == "Slice" {
			s = app("s.base", v.S)
		}
		return SVal{S: app(">=", s, e.selfAlloc0), Sort: "Bool"}
	case "inv":
		v := e.eval(x.Args[0])
		return SVal{S: e.typeInv(v, x), Sort: "Bool"}
	case "as": // as(T, x): reinterpret the reference x (Int) as a value of Go type T (for ghost sequences of object refs)
		T := e.typeArg(x.Args[0])
		v := e.eval(x.Args[1])
		return SVal{S: v.S, T: T, Sort: t.sortOf(T)}
	case "moninv": // conjunction of the monitor invariants of x's type, for object x
		v := e.eval(x.Args[0])
		n, ok := derefNamed(e.resolveT(v.T))
		if !ok {
			e.errf(x, "moninv of a non-named type")
		}
		ts := t.eng.specs.Types[typeName(n.Origin())]
		if ts == nil || len(ts.Monitors) == 0 {
			e.errf(x, "type has no monitor")
		}
		var cs []string
		for _, m := range ts.Monitors {
			mr := &monRef{ts: ts, mon: m}
			for _, inv := range m.Inv {
				me := t.monEnv(mr, v.S)
				me.st, me.old = e.st, e.old
				cs = append(cs, me.evalBool(inv.E))
			}
		}
		return SVal{S: and(cs...), Sort: "Bool"}
	case "mytok": // mytok(obj, name): tokens of that name this thread holds for obj's monitor
		v := e.eval(x.Args[0])
		n, ok := derefNamed(e.resolveT(v.T))
		if !ok || x.Args[1].Op != "id" {
			e.errf(x, "mytok(obj, tokenname)")
		}
		_, mine := t.tokComps(tshort(typeName(n.Origin())), x.Args[1].Name)
		return SVal{S: e.inState(func() string { return app("select", t.get(mine), v.S) }), Sort: "Int"}
	case "mydebt": // notification debts this thread holds for a condition variable field
		vf := e.eval(x.Args[0])
		if vf.P == nil || vf.P.Kind != "field" {
			e.errf(x, "mydebt needs a condition variable field")
		}
		tn, f, _ := compParts(vf.P.Comp)
		_, _, dc := t.condComps(tn, f)
		return SVal{S: e.inState(func() string { return app("select", t.get(dc), vf.P.Ref) }), Sort: "Int"}
	case "held", "rheld":
		// held(x.mu): write-held; rheld: read- or write-held
		if e.noLocks {
			return SVal{S: "false", Sort: "Bool"} // evaluated for a goroutine that holds no lock at all
		}
		lc, ref := e.lockComp(x.Args[0])
		if t.inRequires {
			t.heldAtEntry[lc] = append(t.heldAtEntry[lc], ref)
		}
		s := e.inState(func() string { return app("select", t.get(lc), ref) })
		if x.Name == "held" {
			return SVal{S: eq(s, "2"), Sort: "Bool"}
		}
		return SVal{S: app(">=", s, "1"), Sort: "Bool"}
	case "unlocked":
		if e.noLocks {
			return SVal{S: "true", Sort: "Bool"}
		}
		lc, ref := e.lockComp(x.Args[0])
		if t.collectUnlocked != nil {
			*t.collectUnlocked = append(*t.collectUnlocked, lc)
		}
		s := e.inState(func() string { return app("select", t.get(lc), ref) })
		return SVal{S: eq(s, "0"), Sort: "Bool"}
	case "arrof": // arrof(s): the byte array with content s (what a slice-to-array conversion yields)
		v := e.eval(x.Args[0])
		t.declareFun("arr$ofstr", []string{"Str"}, "(Array Int Int)")
		return SVal{S: app("arr$ofstr", v.S), Sort: "(Array Int Int)"}
	case "closed": // closed(ch): the channel has been closed
		v := e.eval(x.Args[0])
		cc := t.comp("CH.closed", "(Array Int Bool)")
		return SVal{S: e.inState(func() string { return app("select", t.get(cc), v.S) }), Sort: "Bool"}
	case "typeof":
		v := e.eval(x.Args[0])
		return SVal{S: app("dyn.type", v.S), Sort: "Int"}
	case "typeid":
		return SVal{S: t.typeID(e.typeArg(x.Args[0])), Sort: "Int"}
	case "unbox":
		T := e.typeArg(x.Args[0])
		v := e.eval(x.Args[1])
		if v.Box != "" && v.BoxSort == t.sortOf(T) {
			return SVal{S: v.Box, T: T, Sort: t.sortOf(T)}
		}
		return SVal{S: t.unbox(v.S, T), T: T, Sort: t.sortOf(T)}
	case "sel":
		a, i := e.eval(x.Args[0]), e.eval(x.Args[1])
		return SVal{S: app("select", a.S, i.S), Sort: arrayElemSort(a.Sort)}
	case "upd":
		a, i, v := e.eval(x.Args[0]), e.eval(x.Args[1]), e.eval(x.Args[2])
		return SVal{S: app("store", a.S, i.S, v.S), Sort: a.Sort}
	case "content": // abstract byte-string content of a slice
		v := e.eval(x.Args[0])
		if v.Sort != "Slice" {
			e.errf(x, "content of non-slice")
		}
		return SVal{S: e.inState(func() string { return t.bytesToStr(v.S) }), Sort: "Str"}
	case "addr": // addr(global): address of a package-level variable
		v := e.eval(x.Args[0])
		if v.P == nil {
			e.errf(x, "addr of non-location")
		}
		return SVal{S: t.termOfOpt(Val{P: v.P}), Sort: "Int"}
	case "base":
		v := e.eval(x.Args[0])
		return SVal{S: app("s.base", v.S), Sort: "Int"}
	case "off":
		v := e.eval(x.Args[0])
		return SVal{S: app("s.off", v.S), Sort: "Int"}
	case "int": // int(x): forget Go type
		v := e.eval(x.Args[0])
		if v.Sort == "Bool" {
			return SVal{S: ite(v.S, "1", "0"), Sort: "Int"}
		}
		return SVal{S: v.S, Sort: v.Sort}
	case "elems": // elems(s): (Array Int T) backing array of slice s
		v := e.eval(x.Args[0])
		u, ok := e.resolveT(v.T).Underlying().(*types.Slice)
		if !ok {
			e.errf(x, "elems of non-slice")
		}
		es := t.sortOf(u.Elem())
		c := t.comp("E."+mangle(es), "(Array Int (Array Int "+es+"))")
		return SVal{S: e.inState(func() string { return app("select", t.get(c), app("s.base", v.S)) }), Sort: "(Array Int " + es + ")"}
	case "dom", "vals": // dom(m): (Array K Bool)
		m := e.eval(x.Args[0])
		mt, ok := e.resolveT(m.T).Underlying().(*types.Map)
		if !ok {
			e.errf(x, "%s() on non-map", x.Name)
		}
		dc, vc, _ := t.mapComps(mt)
		if x.Name == "dom" {
			return SVal{S: e.inState(func() string { return app("select", t.get(dc), m.S) }), Sort: "(Array " + t.sortOf(mt.Key()) + " Bool)"}
		}
		return SVal{S: e.inState(func() string { return app("select", t.get(vc), m.S) }), Sort: "(Array " + t.sortOf(mt.Key()) + " " + t.sortOf(mt.Elem()) + ")"}
	}
	// user spec functions
	if sf, ok := t.eng.specs.Funs[x.Name]; ok {
		var args []string
		for _, a := range x.Args {
			args = append(args, e.eval(a).S)
		}
		t.useSpecFun(sf)
		return SVal{S: app(q("sf$"+sf.Name), args...), Sort: sf.Ret}
	}
	e.errf(x, "unknown spec function %s", x.Name)
	return SVal{}
}

func (e *Env) lockComp(x *Expr) (string, string) {
	if x.Op == "un" && x.Name == "*" {
		// mutex referenced through a pointer-typed field: the lock is identified with that field of its
		// owner (the mutex object is owned exclusively by the object that points to it)
		inner := e.eval(x.Args[0])
		if inner.P != nil && inner.P.Kind == "field" {
			return e.t.comp("L"+inner.P.Comp[1:], "(Array Int Int)"), inner.P.Ref
		}
	}
	v := e.eval(x)
	if v.P == nil || v.P.Kind != "field" {
		e.errf(x, "not a lock field")
	}
	return e.t.comp("L"+v.P.Comp[1:], "(Array Int Int)"), v.P.Ref
}

// typeInv: conjunction of the declared invariants of v's type, with the object bound to `self`.
func (e *Env) typeInv(v SVal, x *Expr) string {
	T := e.resolveT(v.T)
	ts := e.t.eng.specs.Types[typeName(T)]
	if ts == nil {
		if n, ok := derefNamed(T); ok {
			ts = e.t.eng.specs.Types[typeName(n.Origin())]
		}
	}
	if ts != nil && len(ts.Invariants) == 0 {
		// no type-level invariant: inv(x) means the invariants of x's monitors
		var cs []string
		for _, m := range ts.Monitors {
			mr := &monRef{ts: ts, mon: m}
			for _, inv := range m.Inv {
				me := e.t.monEnv(mr, v.S)
				me.st, me.old = e.st, e.old
				cs = append(cs, me.evalBool(inv.E))
			}
		}
		if len(cs) > 0 {
			return and(cs...)
		}
	}
	if ts == nil || len(ts.Invariants) == 0 {
		e.errf(x, "type %s has no declared invariant", typeName(T))
	}
	sub := *e
	sub.vars = map[string]SVal{"self": v}
	sub.local = nil
	sub.bound = nil
	if n, ok := derefNamed(T); ok {
		sub.pkg = n.Obj().Pkg()
		if n.TypeArgs() != nil {
			sub.subst = map[string]types.Type{}
			for i := 0; i < n.TypeArgs().Len(); i++ {
				sub.subst[n.Origin().TypeParams().At(i).Obj().Name()] = e.resolveT(n.TypeArgs().At(i))
			}
		}
	}
	var cs []string
	for _, c := range ts.Invariants {
		cs = append(cs, sub.evalBool(c.E))
	}
	return and(cs...)
}

func derefNamed(T types.Type) (*types.Named, bool) {
	if p, ok := T.Underlying().(*types.Pointer); ok {
		T = p.Elem()
	}
	if p, ok := T.(*types.Pointer); ok {
		T = p.Elem()
	}
	n, ok := T.(*types.Named)
	return n, ok
}

// rangeGhost: the ghost component (suffix ".visited" / ".count") of the function's map range loop; with several map ranges
// the argument at position argPos selects the n-th one in source order (SSA register order).
func (e *Env) rangeGhost(x *Expr, suffix string, argPos int) string {
	t := e.t
	var comps []string
	for c := range t.compSort {
		if strings.HasPrefix(c, "R.") && strings.HasSuffix(c, suffix) {
			comps = append(comps, c)
		}
	}
	regNo := func(c string) int {
		n := 0
		fmt.Sscanf(strings.TrimPrefix(c, "R.t"), "%d", &n)
		return n
	}
	sort.Slice(comps, func(i, j int) bool { return regNo(comps[i]) < regNo(comps[j]) })
	if len(comps) == 0 {
		e.errf(x, "%s(): no map range in this function", x.Name)
	}
	if len(x.Args) > argPos {
		n := 0
		if x.Args[argPos].Op != "int" || func() bool { _, err := fmt.Sscanf(x.Args[argPos].Name, "%d", &n); return err != nil }() || n < 1 || n > len(comps) {
			e.errf(x, "%s(): the map range ordinal must be a literal between 1 and %d", x.Name, len(comps))
		}
		return comps[n-1]
	}
	if len(comps) > 1 {
		e.errf(x, "%s(): more than one map range in this function (give the ordinal)", x.Name)
	}
	return comps[0]
}

// exprPath: a.b.c for a selector chain of identifiers ("" otherwise).
func exprPath(x *Expr) string {
	switch x.Op {
	case "id":
		return x.Name
	case "sel":
		if p := exprPath(x.Args[0]); p != "" {
			return p + "." + x.Name
		}
	}
	return ""
}
