package main

// Contract files: block comments /*@ ... @*/ in zz_contracts_verif.go files inside /repo
// packages, and *.spec files (same grammar, without the comment markers) under
// /verif/contracts/trusted for assumed contracts of code outside hive.go.

import (
	"fmt"
	"os"
	"regexp"
	"strings"
)

type Clause struct {
	Kind string // requires ensures modifies invariant ...
	Arg  string // e.g. loop ordinal, callback name
	Text string
	E    *Expr
	Cond *Expr // modifies-if: the item may change only when Cond holds in the pre-state
	Line int
	File string
}

type Contract struct {
	Key        string // "pkgpath.Func" or "pkgpath.(Recv).Method" normalised (see fnKey)
	File       string
	Line       int
	Trusted    bool
	Params     []string // explicit parameter names (trusted contracts)
	Results    []string
	Inst       map[string][]string // type param -> list of type names
	Requires   []*Clause
	Ensures    []*Clause
	Modifies   []*Clause // each Text is a comma separated list (already split: one clause per item)
	LoopInv    map[int][]*Clause
	LoopMod    map[int][]*Clause
	Ghost      []*Clause // ghost updates: "ghost at return: x = e" / "ghost at call n: ..."
	Preserves  []*Clause         // preserves items: exceptions to modifies everything
	Maintains  []*Clause         // maintains E (also in Requires and Ensures)
	GhostLocal map[string]string // "ghost local name Sort": ghost variables of one activation (no callee can change them)
	Callback   map[string]*Contract
	PanicsIf   *Clause
	PanicsWhen *Clause           // evaluated in the state at the panic site
	Opts       map[string]string // free options: arith, nopanic, pure, ...
	Asserts    []*Clause
	Assumes    []*Clause
	DeclPkg    string // package whose contract file declared this contract (assume-func)
	Used       bool
}

type TypeSpec struct {
	Name       string // pkgpath.Type
	Invariants []*Clause
	GhostField map[string]string // name -> sort
	GhostZero  map[string]bool   // ghost fields that are 0 in a zero-valued object
	CloseOnly  map[string]bool   // channel fields that are only ever closed, never sent on
	Monitors   []*MonitorSpec
	Callbacks  map[string]*Contract // contracts of function-typed fields
	File       string
	Line       int
}

type MonitorSpec struct {
	Lock   string   // field name of the lock ("Mutex" for embedded)
	Guards []string // field names (incl. ghost fields) guarded by it
	Conds  []string // sync.Cond fields
	Tokens []string // thread-held ghost tokens (shared count tok_<name> + per-thread count)
	Inv    []*Clause
	Level  int
	Atomic bool
}

type SpecSet struct {
	Funcs     map[string]*Contract
	Types     map[string]*TypeSpec
	Ghosts    map[string]string // global ghost var -> sort  (key pkgpath.name)
	Axioms    []*Clause
	GInv      map[string][]*Clause // package path -> global invariants
	Funs      map[string]*SpecFun  // spec functions (uninterpreted or defined)
	Sentinels map[string]bool
}

type SpecFun struct {
	Name   string
	Params []string
	PSorts []string
	Ret    string
	Body   *Expr // nil = uninterpreted
	Pkg    string
}

func NewSpecSet() *SpecSet {
	return &SpecSet{Funcs: map[string]*Contract{}, Types: map[string]*TypeSpec{}, Ghosts: map[string]string{}, Funs: map[string]*SpecFun{}, Sentinels: map[string]bool{}, GInv: map[string][]*Clause{}}
}

var reBlock = regexp.MustCompile(`(?s)/\*@(.*?)@\*/`)

// LoadContractFile parses a Go file with /*@ @*/ blocks (pkgPath gives the default package
// for unqualified keys) or a .spec file.
func (ss *SpecSet) LoadFile(path, pkgPath string, trusted bool) error {
	b, err := os.ReadFile(path)
	if err != nil {
		return err
	}
	src := string(b)
	if strings.HasSuffix(path, ".go") {
		var parts []string
		// keep line numbers: replace everything outside blocks with blank lines
		idx := reBlock.FindAllStringSubmatchIndex(src, -1)
		out := []byte(strings.Repeat(" ", 0))
		last := 0
		for _, m := range idx {
			for _, c := range src[last:m[2]] {
				if c == '\n' {
					out = append(out, '\n')
				}
			}
			out = append(out, src[m[2]:m[3]]...)
			last = m[3]
		}
		_ = parts
		src = string(out)
	}
	return ss.parse(src, path, pkgPath, trusted)
}

var clauseKW = map[string]bool{"preserves": true, "maintains": true, "requires": true, "ensures": true, "modifies": true, "instantiate": true, "loop": true,
	"ghost": true, "callback": true, "modifies-if": true, "closeonly": true, "panics-iff": true, "panics-when": true, "invariant": true, "opt": true, "monitor": true, "assert": true,
	"func": true, "assume-func": true, "assume-func-here": true, "type": true, "assumes": true, "global-invariant": true, "axiom": true, "specfun": true, "global": true, "sentinel": true, "package": true, "end": true}

func (ss *SpecSet) parse(src, file, pkgPath string, trusted bool) error {
	lines := strings.Split(src, "\n")
	// strip comments, join continuation lines
	type ln struct {
		text   string
		no     int
		indent int
	}
	var ls []ln
	for i, l := range lines {
		if j := strings.Index(l, "--"); j >= 0 {
			l = l[:j]
		}
		t := strings.TrimSpace(l)
		if t == "" {
			continue
		}
		first := t
		if j := strings.IndexAny(t, " \t("); j >= 0 {
			first = t[:j]
		}
		if clauseKW[first] || len(ls) == 0 {
			ind := 0
			for _, c := range l {
				if c == ' ' {
					ind++
				} else if c == '\t' {
					ind += 8
				} else {
					break
				}
			}
			ls = append(ls, ln{t, i + 1, ind})
		} else {
			ls[len(ls)-1].text += " " + t
		}
	}
	var cur *Contract
	var curT *TypeSpec
	var curM *MonitorSpec
	var curCB *Contract
	mk := func(kind, arg, text string, no int) (*Clause, error) {
		c := &Clause{Kind: kind, Arg: arg, Text: text, Line: no, File: file}
		if text != "" {
			e, err := ParseExpr(text)
			if err != nil {
				return nil, fmt.Errorf("%s:%d: %v in %q", file, no, err, text)
			}
			c.E = e
		}
		return c, nil
	}
	cbIndent := -1
	for _, l := range ls {
		// clauses of a callback are the lines indented deeper than its "callback" line
		if curCB != nil && l.indent <= cbIndent {
			curCB = nil
		}
		kw, rest := l.text, ""
		if j := strings.IndexAny(l.text, " \t"); j >= 0 {
			kw, rest = l.text[:j], strings.TrimSpace(l.text[j+1:])
		}
		switch kw {
		case "package":
			pkgPath = rest
		case "func", "assume-func", "assume-func-here":
			curT, curM, curCB = nil, nil, nil
			c := &Contract{File: file, Line: l.no, Trusted: trusted, Inst: map[string][]string{}, LoopInv: map[int][]*Clause{}, LoopMod: map[int][]*Clause{}, Callback: map[string]*Contract{}, Opts: map[string]string{}}
			key, params, results, err := parseFuncHead(rest)
			if err != nil {
				return fmt.Errorf("%s:%d: %v", file, l.no, err)
			}
			if kw == "func" && params != nil {
				// "func Iface.Method(recv, ...) (...)": the contract of an interface method - an assumption about
				// every implementation that may be passed in (reported as an assumed contract); names in it are
				// resolved in the package that declares the contract (the method itself may be declared elsewhere)
				c.Trusted = true
				c.DeclPkg = pkgPath
			}
			if kw == "assume-func" {
				// assumed contract of a function outside this package (fully qualified key), valid for
				// the claims that load this contract file only
				c.Trusted = true
				c.DeclPkg = pkgPath
			} else if kw == "assume-func-here" {
				// the same, but for calls made from the declaring package only (two packages of one claim may
				// describe one library function - container/heap.Pop - in terms of their own ghost state)
				c.Trusted = true
				c.DeclPkg = pkgPath
				key = key + "@" + pkgPath
			} else {
				key = pkgPath + "." + key
			}
			c.Key, c.Params, c.Results = key, params, results
			if _, dup := ss.Funcs[key]; dup {
				return fmt.Errorf("%s:%d: duplicate contract for %s", file, l.no, key)
			}
			ss.Funcs[key] = c
			cur = c
		case "type":
			cur, curM, curCB = nil, nil, nil
			name := rest
			if !strings.Contains(name, "/") && !strings.Contains(name, ".") {
				name = pkgPath + "." + name
			}
			t := ss.Types[name]
			if t == nil {
				t = &TypeSpec{Name: name, GhostField: map[string]string{}, Callbacks: map[string]*Contract{}, File: file, Line: l.no}
				ss.Types[name] = t
			}
			curT = t
		case "end":
			cur, curT, curM, curCB = nil, nil, nil, nil
		case "monitor":
			// monitor <lockfield> [level N] guards a, b, c
			if curT == nil {
				return fmt.Errorf("%s:%d: monitor outside type", file, l.no)
			}
			m := &MonitorSpec{}
			curCB = nil
			f := strings.Fields(strings.ReplaceAll(rest, ",", " "))
			i := 0
			if len(f) > 0 {
				m.Lock = f[0]
				i = 1
			}
			for i < len(f) {
				switch f[i] {
				case "level":
					fmt.Sscanf(f[i+1], "%d", &m.Level)
					i += 2
				case "guards":
					i++
					for i < len(f) && f[i] != "cond" && f[i] != "level" && f[i] != "tokens" {
						m.Guards = append(m.Guards, f[i])
						i++
					}
				case "cond":
					i++
					for i < len(f) && f[i] != "guards" && f[i] != "level" && f[i] != "tokens" {
						m.Conds = append(m.Conds, f[i])
						i++
					}
				case "tokens":
					i++
					for i < len(f) && f[i] != "guards" && f[i] != "level" && f[i] != "cond" {
						m.Tokens = append(m.Tokens, f[i])
						i++
					}
				default:
					return fmt.Errorf("%s:%d: bad monitor clause %q", file, l.no, f[i])
				}
			}
			for _, cf := range m.Conds {
				curT.GhostField["sleep_"+cf] = "Int"
				curT.GhostField["owed_"+cf] = "Int"
				curT.GhostField["wake_"+cf] = "Int"
			}
			for _, tk := range m.Tokens {
				curT.GhostField["tok_"+tk] = "Int"
			}
			curT.Monitors = append(curT.Monitors, m)
			curM = m
		case "invariant":
			cl, err := mk("invariant", "", rest, l.no)
			if err != nil {
				return err
			}
			if cur == nil {
				curCB = nil
			}
			if curM != nil {
				curM.Inv = append(curM.Inv, cl)
			} else if curT != nil {
				curT.Invariants = append(curT.Invariants, cl)
			} else {
				return fmt.Errorf("%s:%d: invariant outside type", file, l.no)
			}
		case "closeonly":
			if curT == nil {
				return fmt.Errorf("%s:%d: closeonly outside type", file, l.no)
			}
			if curT.CloseOnly == nil {
				curT.CloseOnly = map[string]bool{}
			}
			for _, f := range strings.Fields(strings.ReplaceAll(rest, ",", " ")) {
				curT.CloseOnly[f] = true
			}
		case "ghost":
			// in type: ghost name Sort ; global: "global ghost" uses 'global'
			if curT != nil {
				f := strings.SplitN(rest, " ", 2)
				if len(f) != 2 {
					return fmt.Errorf("%s:%d: ghost field needs name and sort", file, l.no)
				}
				gsort := strings.TrimSpace(f[1])
				if strings.HasSuffix(gsort, " zero") {
					// "ghost n Int zero": the field is 0 in a freshly allocated (zero-valued) object
					gsort = strings.TrimSpace(strings.TrimSuffix(gsort, " zero"))
					if curT.GhostZero == nil {
						curT.GhostZero = map[string]bool{}
					}
					curT.GhostZero[f[0]] = true
				}
				curT.GhostField[f[0]] = sortAlias(gsort)
			} else if cur != nil && strings.HasPrefix(strings.TrimSpace(rest), "local ") {
				f := strings.SplitN(strings.TrimSpace(strings.TrimPrefix(strings.TrimSpace(rest), "local ")), " ", 2)
				if len(f) != 2 {
					return fmt.Errorf("%s:%d: ghost local needs name and sort", file, l.no)
				}
				if cur.GhostLocal == nil {
					cur.GhostLocal = map[string]string{}
				}
				cur.GhostLocal[f[0]] = sortAlias(strings.TrimSpace(f[1]))
			} else if cur != nil {
				// ghost at return: name = expr | ghost at entry: ...
				j := strings.Index(rest, ":")
				if j < 0 {
					return fmt.Errorf("%s:%d: ghost update needs 'at <point>:'", file, l.no)
				}
				where := strings.TrimSpace(rest[:j])
				cl := &Clause{Kind: "ghost", Arg: where, Text: strings.TrimSpace(rest[j+1:]), Line: l.no, File: file}
				tgt := cur
				if curCB != nil {
					tgt = curCB
				}
				tgt.Ghost = append(tgt.Ghost, cl)
			} else {
				return fmt.Errorf("%s:%d: ghost outside func/type", file, l.no)
			}
		case "global":
			f := strings.SplitN(strings.TrimSpace(rest), " ", 2)
			if len(f) != 2 {
				return fmt.Errorf("%s:%d: global needs name and sort", file, l.no)
			}
			ss.Ghosts[pkgPath+"."+f[0]] = sortAlias(strings.TrimSpace(f[1]))
		case "global-invariant":
			cl, err := mk("global-invariant", "", rest, l.no)
			if err != nil {
				return err
			}
			ss.GInv[pkgPath] = append(ss.GInv[pkgPath], cl)
		case "sentinel":
			for _, n := range strings.Fields(strings.ReplaceAll(rest, ",", " ")) {
				if !strings.Contains(n, ".") {
					n = pkgPath + "." + n
				}
				ss.Sentinels[n] = true
			}
		case "axiom":
			cl, err := mk("axiom", pkgPath, rest, l.no)
			if err != nil {
				return err
			}
			ss.Axioms = append(ss.Axioms, cl)
		case "specfun":
			// specfun name(a Int, b Int) Int [= expr]
			sf, err := parseSpecFun(rest)
			if err != nil {
				return fmt.Errorf("%s:%d: %v", file, l.no, err)
			}
			sf.Pkg = pkgPath
			ss.Funs[sf.Name] = sf
		default:
			if cur == nil && curT != nil && kw == "callback" {
				key, params, results, err := parseFuncHead(rest)
				if err != nil {
					return fmt.Errorf("%s:%d: %v", file, l.no, err)
				}
				cb := &Contract{Key: curT.Name + "#" + key, File: file, Line: l.no, Params: params, Results: results, Inst: map[string][]string{}, LoopInv: map[int][]*Clause{}, LoopMod: map[int][]*Clause{}, Callback: map[string]*Contract{}, Opts: map[string]string{}, Trusted: true}
				curT.Callbacks[key] = cb
				curCB = cb
				cbIndent = l.indent
				curM = nil
				continue
			}
			if cur == nil && curCB == nil {
				return fmt.Errorf("%s:%d: clause %q outside func", file, l.no, kw)
			}
			tgt := cur
			if curCB != nil && kw != "callback" {
				tgt = curCB
			}
			switch kw {
			case "instantiate":
				j := strings.Index(rest, ":")
				if j < 0 {
					return fmt.Errorf("%s:%d: instantiate T: types", file, l.no)
				}
				tp := strings.TrimSpace(rest[:j])
				for _, t := range splitTopCommas(rest[j+1:]) {
					cur.Inst[tp] = append(cur.Inst[tp], strings.TrimSpace(t))
				}
			case "maintains":
				// maintains E: requires E and ensures E; where a callee invokes this function any number of times
				// (opt invokes) E is an invariant of that iteration: required before, known afterwards
				for _, k2 := range []string{"requires", "ensures"} {
					cl, err := mk(k2, "", rest, l.no)
					if err != nil {
						return err
					}
					if k2 == "requires" {
						tgt.Requires = append(tgt.Requires, cl)
						tgt.Maintains = append(tgt.Maintains, cl)
					} else {
						tgt.Ensures = append(tgt.Ensures, cl)
					}
				}
			case "requires", "ensures", "assert", "assumes":
				cl, err := mk(kw, "", rest, l.no)
				if err != nil {
					return err
				}
				switch kw {
				case "requires":
					tgt.Requires = append(tgt.Requires, cl)
				case "ensures":
					tgt.Ensures = append(tgt.Ensures, cl)
				case "assert":
					tgt.Asserts = append(tgt.Asserts, cl)
				case "assumes":
					tgt.Assumes = append(tgt.Assumes, cl)
				}
			case "panics-iff":
				cl, err := mk(kw, "", rest, l.no)
				if err != nil {
					return err
				}
				tgt.PanicsIf = cl
			case "panics-when":
				cl, err := mk(kw, "", rest, l.no)
				if err != nil {
					return err
				}
				tgt.PanicsWhen = cl
			case "modifies":
				for _, item := range splitTop(rest) {
					cl, err := mk("modifies", "", item, l.no)
					if err != nil {
						return err
					}
					tgt.Modifies = append(tgt.Modifies, cl)
				}
			case "preserves":
				// preserves a, b: exceptions to `modifies everything` (checked as a frame for exactly these items)
				for _, item := range splitTop(rest) {
					cl, err := mk("modifies", "", item, l.no)
					if err != nil {
						return err
					}
					tgt.Preserves = append(tgt.Preserves, cl)
				}
			case "modifies-if":
				// modifies-if <cond> then a, b: the items may change only when cond holds in the pre-state
				j := strings.Index(rest, " then ")
				if j < 0 {
					return fmt.Errorf("%s:%d: modifies-if <cond> then <items>", file, l.no)
				}
				ce, err := ParseExpr(strings.TrimSpace(rest[:j]))
				if err != nil {
					return fmt.Errorf("%s:%d: %v", file, l.no, err)
				}
				for _, item := range splitTop(rest[j+len(" then "):]) {
					cl, err := mk("modifies", "", item, l.no)
					if err != nil {
						return err
					}
					cl.Cond = ce
					tgt.Modifies = append(tgt.Modifies, cl)
				}
			case "loop":
				// loop N invariant e | loop N modifies ...
				f := strings.SplitN(rest, " ", 3)
				if len(f) < 3 {
					return fmt.Errorf("%s:%d: loop N invariant <expr>", file, l.no)
				}
				var n int
				if _, err := fmt.Sscanf(f[0], "%d", &n); err != nil {
					return fmt.Errorf("%s:%d: loop ordinal: %v", file, l.no, err)
				}
				switch f[1] {
				case "invariant":
					if cur == nil {
						return fmt.Errorf("%s:%d: loop clause outside func", file, l.no)
					}
					cl, err := mk("invariant", f[0], f[2], l.no)
					if err != nil {
						return err
					}
					cur.LoopInv[n] = append(cur.LoopInv[n], cl)
				case "modifies":
					for _, item := range splitTop(f[2]) {
						cl, err := mk("modifies", f[0], item, l.no)
						if err != nil {
							return err
						}
						cur.LoopMod[n] = append(cur.LoopMod[n], cl)
					}
				default:
					return fmt.Errorf("%s:%d: unknown loop clause %q", file, l.no, f[1])
				}
			case "callback":
				// callback name(params) (results)
				key, params, results, err := parseFuncHead(rest)
				if err != nil {
					return fmt.Errorf("%s:%d: %v", file, l.no, err)
				}
				cb := &Contract{Key: cur.Key + "#" + key, File: file, Line: l.no, Params: params, Results: results, Inst: map[string][]string{}, LoopInv: map[int][]*Clause{}, LoopMod: map[int][]*Clause{}, Callback: map[string]*Contract{}, Opts: map[string]string{}, Trusted: true}
				cur.Callback[key] = cb
				curCB = cb
				cbIndent = l.indent
			case "opt":
				f := strings.SplitN(rest, " ", 2)
				v := "true"
				if len(f) == 2 {
					v = strings.TrimSpace(f[1])
				}
				tgt.Opts[f[0]] = v
			default:
				return fmt.Errorf("%s:%d: unknown clause %q", file, l.no, kw)
			}
		}
	}
	return nil
}

// parseFuncHead parses `Name`, `(*T).M`, `T.M`, optionally followed by (p1, p2) (r1, r2).
func parseFuncHead(s string) (key string, params, results []string, err error) {
	s = strings.TrimSpace(s)
	// find end of key
	i := 0
	if strings.HasPrefix(s, "(") {
		j := strings.Index(s, ")")
		if j < 0 {
			return "", nil, nil, fmt.Errorf("bad func head %q", s)
		}
		i = j + 1
	}
	for i < len(s) && s[i] != '(' && s[i] != ' ' {
		i++
	}
	key = s[:i]
	rest := strings.TrimSpace(s[i:])
	grab := func() []string {
		if !strings.HasPrefix(rest, "(") {
			return nil
		}
		j := strings.Index(rest, ")")
		inner := rest[1:j]
		rest = strings.TrimSpace(rest[j+1:])
		var out []string
		for _, p := range strings.Split(inner, ",") {
			p = strings.TrimSpace(p)
			if p != "" {
				out = append(out, p)
			}
		}
		if out == nil {
			out = []string{}
		}
		return out
	}
	params = grab()
	results = grab()
	return
}

func parseSpecFun(s string) (*SpecFun, error) {
	i := strings.Index(s, "(")
	j := strings.Index(s, ")")
	if i < 0 || j < i {
		return nil, fmt.Errorf("bad specfun %q", s)
	}
	sf := &SpecFun{Name: strings.TrimSpace(s[:i])}
	for _, p := range strings.Split(s[i+1:j], ",") {
		f := strings.Fields(p)
		if len(f) == 0 {
			continue
		}
		if len(f) != 2 {
			return nil, fmt.Errorf("specfun param %q needs name and sort", p)
		}
		sf.Params = append(sf.Params, f[0])
		sf.PSorts = append(sf.PSorts, sortAlias(f[1]))
	}
	rest := strings.TrimSpace(s[j+1:])
	if k := strings.Index(rest, "="); k >= 0 {
		sf.Ret = sortAlias(strings.TrimSpace(rest[:k]))
		e, err := ParseExpr(strings.TrimSpace(rest[k+1:]))
		if err != nil {
			return nil, err
		}
		sf.Body = e
	} else {
		sf.Ret = sortAlias(rest)
	}
	return sf, nil
}

// splitTop splits on commas that are not nested in parentheses/brackets.
func splitTop(s string) []string {
	var out []string
	depth, last := 0, 0
	for i, c := range s {
		switch c {
		case '(', '[':
			depth++
		case ')', ']':
			depth--
		case ',':
			if depth == 0 {
				out = append(out, strings.TrimSpace(s[last:i]))
				last = i + 1
			}
		}
	}
	if t := strings.TrimSpace(s[last:]); t != "" {
		out = append(out, t)
	}
	return out
}

var sortAliases = map[string]string{"StrSet": "(Array Str Bool)", "StrMap": "(Array Str Str)", "IntArr": "(Array Int Int)", "BoolArr": "(Array Int Bool)", "IntSet": "(Array Int Bool)", "IntArr2": "(Array Int (Array Int Int))"}

func sortAlias(s string) string {
	if a, ok := sortAliases[s]; ok {
		return a
	}
	return s
}

// splitTopCommas splits at commas outside brackets
func splitTopCommas(s string) []string {
	var out []string
	depth, start := 0, 0
	for i, c := range s {
		switch c {
		case '[', '(':
			depth++
		case ']', ')':
			depth--
		case ',':
			if depth == 0 {
				out = append(out, s[start:i])
				start = i + 1
			}
		}
	}
	return append(out, s[start:])
}
