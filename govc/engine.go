package main

import (
	"bytes"
	"context"
	"fmt"
	"go/types"
	"os"
	"os/exec"
	"path/filepath"
	"regexp"
	"sort"
	"strings"
	"sync"
	"time"

	"golang.org/x/tools/go/packages"
	"golang.org/x/tools/go/ssa"
	"golang.org/x/tools/go/ssa/ssautil"
)

type Engine struct {
	repo   string
	module string
	prog   *ssa.Program
	pkgs   []*packages.Package
	spkgs  []*ssa.Package
	specs  *SpecSet
	byPath map[string]*ssa.Package
	fnIdx  map[string]*ssa.Function
	loadSecs float64
}

func goEnv() []string {
	env := os.Environ()
	env = append(env, "GOFLAGS=-mod=mod", "GOPROXY=off", "GOSUMDB=off", "GOTOOLCHAIN=local", "GOWORK=off")
	return env
}

func LoadEngine(repo, module string, patterns []string, specs *SpecSet, fileFilter *regexp.Regexp) (*Engine, error) {
	t0 := time.Now()
	cfg := &packages.Config{Mode: packages.LoadAllSyntax, Dir: filepath.Join(repo, module), BuildFlags: []string{"-tags=verif"}, Env: goEnv()}
	pkgs, err := packages.Load(cfg, patterns...)
	if err != nil {
		return nil, err
	}
	var errs []string
	packages.Visit(pkgs, nil, func(p *packages.Package) {
		for _, e := range p.Errors {
			errs = append(errs, e.Error())
		}
	})
	if len(errs) > 0 {
		return nil, fmt.Errorf("package errors: %s", strings.Join(errs, "; "))
	}
	prog, spkgs := ssautil.AllPackages(pkgs, ssa.GlobalDebug)
	prog.Build()
	e := &Engine{repo: repo, module: module, prog: prog, pkgs: pkgs, spkgs: spkgs, specs: specs, byPath: map[string]*ssa.Package{}, fnIdx: map[string]*ssa.Function{}}
	for _, sp := range prog.AllPackages() {
		e.byPath[sp.Pkg.Path()] = sp
	}
	// contract files of the loaded (root) packages
	for _, p := range pkgs {
		for _, f := range p.GoFiles {
			base := filepath.Base(f)
			if strings.HasPrefix(base, "zz_contracts") && strings.HasSuffix(base, "_verif.go") && (fileFilter == nil || fileFilter.MatchString(base)) {
				if err := specs.LoadFile(f, p.PkgPath, false); err != nil {
					return nil, err
				}
			}
		}
		// tag-guarded file may be excluded from GoFiles if the tag were off; also look on disk
	}
	e.index()
	e.loadSecs = time.Since(t0).Seconds()
	return e, nil
}

func (e *Engine) index() {
	for fn := range ssautil.AllFunctions(e.prog) {
		if fn.Synthetic != "" && fn.Parent() == nil {
			continue
		}
		if fn.Origin() != nil {
			continue // instances: contracts attach to the generic origin
		}
		e.fnIdx[fnKey(fn)] = fn
	}
	for _, sp := range e.prog.AllPackages() {
		for _, m := range sp.Members {
			if f, ok := m.(*ssa.Function); ok {
				e.fnIdx[fnKey(f)] = f
				for _, an := range f.AnonFuncs {
					e.indexAnon(an)
				}
			}
			if tn, ok := m.(*ssa.Type); ok {
				T := tn.Type()
				for _, TT := range []types.Type{T, types.NewPointer(T)} {
					ms := e.prog.MethodSets.MethodSet(TT)
					for i := 0; i < ms.Len(); i++ {
						if f := e.prog.MethodValue(ms.At(i)); f != nil && f.Synthetic == "" {
							e.fnIdx[fnKey(f)] = f
							for _, an := range f.AnonFuncs {
								e.indexAnon(an)
							}
						}
					}
				}
				// generic types: methods are reachable via the named type's methods
				if n, ok := T.(*types.Named); ok {
					for i := 0; i < n.NumMethods(); i++ {
						if f := e.prog.FuncValue(n.Method(i)); f != nil {
							e.fnIdx[fnKey(f)] = f
							for _, an := range f.AnonFuncs {
								e.indexAnon(an)
							}
						}
					}
				}
			}
		}
	}
}

func (e *Engine) indexAnon(f *ssa.Function) {
	e.fnIdx[fnKey(f)] = f
	for _, an := range f.AnonFuncs {
		e.indexAnon(an)
	}
}

func (e *Engine) findPkg(name string, from *types.Package) *types.Package {
	if from != nil {
		for _, imp := range from.Imports() {
			if imp.Name() == name {
				return imp
			}
		}
	}
	for _, sp := range e.prog.AllPackages() {
		if sp.Pkg.Name() == name && (from == nil || sp.Pkg != from) {
			// only accept unambiguous matches by name among hive.go + stdlib
			return sp.Pkg
		}
	}
	return nil
}

func (e *Engine) namedType(full string) *types.Named {
	i := strings.LastIndex(full, ".")
	if i < 0 {
		return nil
	}
	sp := e.byPath[full[:i]]
	if sp == nil {
		return nil
	}
	o := sp.Pkg.Scope().Lookup(full[i+1:])
	if o == nil {
		return nil
	}
	n, _ := o.Type().(*types.Named)
	return n
}

var reErrName = regexp.MustCompile(`^Err[A-Z]`)

func (e *Engine) isSentinel(v *types.Var) bool {
	if v.Pkg() == nil || v.Parent() != v.Pkg().Scope() {
		return false
	}
	if !reErrName.MatchString(v.Name()) {
		return false
	}
	return types.Identical(v.Type(), types.Universe.Lookup("error").Type())
}

func (e *Engine) isSentinelGlobal(g *ssa.Global) bool {
	v, ok := g.Object().(*types.Var)
	return ok && e.isSentinel(v)
}

// ---------- translation of one function ----------

func (e *Engine) newTrans(fn *ssa.Function, ct *Contract, key string, inst string, subst map[string]types.Type) *FnTrans {
	return &FnTrans{eng: e, fn: fn, ct: ct, key: key, inst: inst, subst: subst,
		dtSeen: map[string]bool{}, declared: map[string]bool{}, compSort: map[string]string{}, vals: map[ssa.Value]Val{},
		blkOut: map[*ssa.BasicBlock]*State{}, reach: map[*ssa.BasicBlock]string{}, edgeC: map[[2]int]string{},
		counters: map[string]int{}, abstr: map[string]bool{}, trusted: map[string]bool{}, strs: map[string]string{}, typeIDs: map[string]int{},
		sentinels: map[string]string{}, ranges: map[*ssa.Range]*rangeState{}, loopPre: map[*ssa.BasicBlock]*State{}, ghostDone: map[*ssa.Return]bool{}, compT: map[string]types.Type{}, gaddr: map[string]string{}}
}

type FnResult struct {
	Key    string
	Inst   string
	Obls   []*Obligation
	Err    error
	Abstr  []string
	Trusted []string
	Loops  int
	Lines  int
}

// VerifyFunction generates the obligations of one function under contract (one per instantiation).
func (e *Engine) Translate(key string, ct *Contract) []*FnResult {
	base := key
	if i := strings.Index(base, "#"); i >= 0 {
		base = base[:i] // contract variant: same function, different proof mode / clauses
	}
	fn := e.fnIdx[base]
	if fn == nil {
		return []*FnResult{{Key: key, Err: fmt.Errorf("stale contract: function %s not found in the current tree (%s:%d)", key, ct.File, ct.Line)}}
	}
	// instantiations
	var insts []map[string]types.Type
	var names []string
	if len(ct.Inst) > 0 {
		var tps []string
		for tp := range ct.Inst {
			tps = append(tps, tp)
		}
		sort.Strings(tps)
		var rec func(i int, cur map[string]types.Type, nm []string)
		rec = func(i int, cur map[string]types.Type, nm []string) {
			if i == len(tps) {
				c := map[string]types.Type{}
				for k, v := range cur {
					c[k] = v
				}
				insts = append(insts, c)
				names = append(names, strings.Join(nm, ","))
				return
			}
			for _, tn := range ct.Inst[tps[i]] {
				T := basicTypes[tn]
				if T == nil {
					if o := fn.Pkg.Pkg.Scope().Lookup(tn); o != nil {
						T = o.Type()
					}
				}
				if T == nil {
					insts = nil
					return
				}
				cur[tps[i]] = T
				rec(i+1, cur, append(nm, tn))
			}
		}
		rec(0, map[string]types.Type{}, nil)
	} else {
		insts = []map[string]types.Type{{}}
		names = []string{""}
	}
	var out []*FnResult
	for i, s := range insts {
		t := e.newTrans(fn, ct, key, names[i], s)
		err := t.run()
		r := &FnResult{Key: key, Inst: names[i], Obls: t.obls, Err: err, Loops: len(t.loops), Lines: len(t.lines)}
		for a := range t.abstr {
			r.Abstr = append(r.Abstr, a)
		}
		sort.Strings(r.Abstr)
		for a := range t.trusted {
			r.Trusted = append(r.Trusted, a)
		}
		sort.Strings(r.Trusted)
		for _, o := range t.obls {
			o.smt = t.assemble(o)
		}
		out = append(out, r)
	}
	return out
}

const prelude = `(set-option :produce-models true)
(set-logic ALL)
(declare-datatypes ((Slice 0)) (((mk-slice (s.base Int) (s.off Int) (s.len Int) (s.cap Int)))))
(define-fun wf-slice ((s Slice)) Bool (and (>= (s.base s) 0) (>= (s.off s) 0) (>= (s.len s) 0) (<= (s.len s) (s.cap s)) (<= (+ (s.off s) (s.cap s)) 9223372036854775807) (=> (= (s.base s) 0) (= (s.cap s) 0))))
(declare-sort Str 0)
(declare-fun slen (Str) Int)
(declare-fun sidx (Str Int) Int)
(declare-fun scat (Str Str) Str)
(declare-fun ssub (Str Int Int) Str)
(declare-fun str_empty () Str)
(assert (= (slen str_empty) 0))
(assert (forall ((s Str)) (! (>= (slen s) 0) :pattern ((slen s)))))
(declare-fun scmplt (Str Str) Bool)
(declare-fun scmple (Str Str) Bool)
(declare-fun scmpgt (Str Str) Bool)
(declare-fun scmpge (Str Str) Bool)
(declare-fun bytes2str ((Array Int Int) Int Int) Str)
(declare-sort Float 0)
(declare-fun fzero () Float)
(declare-fun fadd (Float Float) Float)
(declare-fun fsub (Float Float) Float)
(declare-fun fmul (Float Float) Float)
(declare-fun fdiv (Float Float) Float)
(declare-fun fneg (Float) Float)
(declare-fun flt (Float Float) Bool)
(declare-fun fle (Float Float) Bool)
(declare-fun fgt (Float Float) Bool)
(declare-fun fge (Float Float) Bool)
(declare-fun feq (Float Float) Bool)
(declare-fun int2float (Int) Float)
(declare-fun err.is (Int Int) Bool)
(assert (forall ((e Int)) (! (not (err.is 0 e)) :pattern ((err.is 0 e)))))
(declare-fun dyn.type (Int) Int)
(declare-fun bit.and (Int Int) Int)
(declare-fun bit.or (Int Int) Int)
(declare-fun bit.xor (Int Int) Int)
(declare-fun bit.andnot (Int Int) Int)
`

func pow2Def() string {
	var b strings.Builder
	b.WriteString("(define-fun pow2 ((k Int)) Int ")
	n := 0
	for k := 0; k <= 255; k++ {
		fmt.Fprintf(&b, "(ite (= k %d) %s ", k, pow2(k).String())
		n++
	}
	b.WriteString("0")
	b.WriteString(strings.Repeat(")", n))
	b.WriteString(")\n")
	// mulpow2(v, k) = v * 2^k as a case split with a linear term per case
	b.WriteString("(define-fun mulpow2 ((v Int) (k Int)) Int ")
	for k := 0; k <= 255; k++ {
		fmt.Fprintf(&b, "(ite (= k %d) (* %s v) ", k, pow2(k).String())
	}
	b.WriteString("0")
	b.WriteString(strings.Repeat(")", 256))
	b.WriteString(")\n")
	return b.String()
}

func (t *FnTrans) assemble(o *Obligation) string {
	var b strings.Builder
	b.WriteString("; obligation " + o.Name + "\n")
	if o.Note != "" {
		b.WriteString("; " + strings.ReplaceAll(o.Note, "\n", " ") + "\n")
	}
	if o.Pos.IsValid() {
		b.WriteString("; at " + o.Pos.String() + "\n")
	}
	b.WriteString(prelude)
	usesPow := strings.Contains(o.Goal, "pow2")
	if !usesPow {
		usesPow = strings.Contains(o.Guard, "pow2")
	}
	if !usesPow {
		for _, l := range t.lines[:o.NLines] {
			if strings.Contains(l, "(pow2 ") || strings.Contains(l, "(mulpow2 ") {
				usesPow = true
				break
			}
		}
	}
	if usesPow {
		b.WriteString(pow2Def())
	}
	for _, d := range t.dtDecl {
		b.WriteString(d + "\n")
	}
	for _, l := range t.lines[:o.NLines] {
		b.WriteString(l + "\n")
	}
	if o.Expect == "sat" {
		b.WriteString("(assert " + o.Goal + ")\n")
	} else {
		b.WriteString("(assert (not " + implies(o.Guard, o.Goal) + "))\n")
	}
	b.WriteString("(check-sat)\n")
	// values of parameters for replay
	var names []string
	for n, v := range t.paramVals {
		_ = n
		s := t.sortOf(t.paramTypes[n])
		if s == "Int" || s == "Bool" {
			names = append(names, v.S)
		} else if s == "Slice" {
			names = append(names, app("s.len", v.S), app("s.off", v.S), app("s.cap", v.S), app("s.base", v.S))
		}
	}
	sort.Strings(names)
	if len(names) > 0 {
		b.WriteString("(get-value (" + strings.Join(names, " ") + "))\n")
	}
	return b.String()
}

// ---------- solving ----------

type solverSpec struct {
	name string
	args func(file string, secs int) []string
}

var solvers = []solverSpec{
	{"z3-new", func(f string, s int) []string { return []string{"z3-new", "-smt2", fmt.Sprintf("-T:%d", s), f} }},
	{"cvc5", func(f string, s int) []string {
		return []string{"cvc5", "--lang=smt2", fmt.Sprintf("--tlimit=%d", s*1000), f}
	}},
	{"z3", func(f string, s int) []string { return []string{"z3", "-smt2", fmt.Sprintf("-T:%d", s), f} }},
}

func runSolver(sp solverSpec, file string, secs int, ctx context.Context) (verdict string, out string, dur float64) {
	t0 := time.Now()
	a := sp.args(file, secs)
	cctx, cancel := context.WithTimeout(ctx, time.Duration(secs+2)*time.Second)
	defer cancel()
	cmd := exec.CommandContext(cctx, a[0], a[1:]...)
	var buf bytes.Buffer
	cmd.Stdout = &buf
	cmd.Stderr = &buf
	cmd.Run()
	dur = time.Since(t0).Seconds()
	out = buf.String()
	first := strings.TrimSpace(strings.SplitN(out, "\n", 2)[0])
	switch first {
	case "sat", "unsat", "unknown":
		verdict = first
	default:
		if strings.Contains(out, "timeout") || cctx.Err() != nil {
			verdict = "timeout"
		} else {
			verdict = "error"
		}
	}
	return
}

type SolveOpts struct {
	Secs     int
	Agree    bool // thorough: two different solvers must agree on unsat
	OutDir   string
	Parallel int
	Seed     int
}

var reValue = regexp.MustCompile(`\(\s*((?:\([^()]*\))|(?:\|[^|]*\|)|[^\s()]+)\s+((?:\(-\s*\d+\))|[^\s()]+)\s*\)`)

func parseModel(out string) map[string]string {
	m := map[string]string{}
	i := strings.Index(out, "\n")
	if i < 0 {
		return m
	}
	for _, mm := range reValue.FindAllStringSubmatch(out[i:], -1) {
		v := strings.ReplaceAll(strings.ReplaceAll(strings.ReplaceAll(mm[2], "(", ""), ")", ""), " ", "")
		m[mm[1]] = v
	}
	return m
}

func solveAll(obls []*Obligation, opt SolveOpts) map[string]*solverStat {
	os.MkdirAll(opt.OutDir, 0o755)
	stats := map[string]*solverStat{}
	var mu sync.Mutex
	sem := make(chan struct{}, opt.Parallel)
	var wg sync.WaitGroup
	for _, o := range obls {
		o := o
		wg.Add(1)
		sem <- struct{}{}
		go func() {
			defer wg.Done()
			defer func() { <-sem }()
			solveOne(o, opt, func(s string, d float64, decided bool) {
				mu.Lock()
				st := stats[s]
				if st == nil {
					st = &solverStat{}
					stats[s] = st
				}
				st.Calls++
				st.Secs += d
				if decided {
					st.Decided++
				}
				mu.Unlock()
			})
		}()
	}
	wg.Wait()
	return stats
}

type solverStat struct {
	Calls   int
	Decided int
	Secs    float64
}

func solveOne(o *Obligation, opt SolveOpts, rec func(string, float64, bool)) {
	if o.Expect == "unsat" && (o.Goal == "true") {
		o.Verdict, o.Solver = "unsat", "syntactic"
		return
	}
	file := filepath.Join(opt.OutDir, mangle(strings.ReplaceAll(o.Name, "::", "__"))+".smt2")
	os.WriteFile(file, []byte(o.smt), 0o644)
	o.File = file
	ctx := context.Background()
	want := o.Expect
	// stage 1: z3-new alone with a short budget
	quick := opt.Secs
	if quick > 3 {
		quick = 3
	}
	v, out, d := runSolver(solvers[0], file, quick, ctx)
	rec(solvers[0].name, d, v == "sat" || v == "unsat")
	o.Secs += d
	definitive := func(v string) bool { return v == "sat" || v == "unsat" }
	agreeNeeded := opt.Agree && want == "unsat"
	if definitive(v) && !(agreeNeeded && v == "unsat") {
		o.Verdict, o.Solver, o.Output = v, solvers[0].name, out
		if v == "sat" {
			o.Model = parseModel(out)
		}
		return
	}
	first := v
	firstOut := out
	// stage 2: race all three with the full budget
	type res struct {
		s    string
		v    string
		out  string
		d    float64
	}
	ch := make(chan res, len(solvers))
	cctx, cancel := context.WithCancel(ctx)
	defer cancel()
	n := 0
	for i, sp := range solvers {
		if i == 0 && definitive(first) {
			continue // already have z3-new's verdict
		}
		n++
		sp := sp
		go func() {
			v, out, d := runSolver(sp, file, opt.Secs, cctx)
			ch <- res{sp.name, v, out, d}
		}()
	}
	var got []res
	if definitive(first) {
		got = append(got, res{solvers[0].name, first, firstOut, 0})
	}
	for i := 0; i < n; i++ {
		r := <-ch
		rec(r.s, r.d, definitive(r.v))
		o.Secs += r.d
		if definitive(r.v) {
			got = append(got, r)
			if !agreeNeeded || r.v == "sat" {
				break
			}
			// need two agreeing unsat
			cnt := 0
			for _, g := range got {
				if g.v == "unsat" {
					cnt++
				}
			}
			if cnt >= 2 {
				break
			}
		} else if o.Output == "" {
			o.Output = r.s + ": " + r.v + "\n" + r.out
		}
	}
	cancel()
	if len(got) == 0 {
		o.Verdict = "unknown"
		if o.Output == "" {
			o.Output = firstOut
		}
		return
	}
	// disagreement?
	for _, g := range got {
		if g.v != got[0].v {
			o.Verdict = "disagree"
			o.Output = fmt.Sprintf("%s says %s, %s says %s", got[0].s, got[0].v, g.s, g.v)
			return
		}
	}
	if agreeNeeded && got[0].v == "unsat" && len(got) < 2 {
		o.Verdict = "unsat"
		o.Solver = got[0].s + " (no second solver agreed within budget)"
		o.Output = got[0].out
		o.single = true
		return
	}
	o.Verdict, o.Output = got[0].v, got[0].out
	var ns []string
	for _, g := range got {
		ns = append(ns, g.s)
	}
	o.Solver = strings.Join(ns, "+")
	if o.Verdict == "sat" {
		o.Model = parseModel(got[0].out)
	}
}
