package main

import (
	"bytes"
	"context"
	"fmt"
	"go/types"
	"os"
	"os/exec"
	"path/filepath"
	"regexp"
	"sort"
	"strings"
	"sync"
	"time"

	"golang.org/x/tools/go/packages"
	"golang.org/x/tools/go/ssa"
	"golang.org/x/tools/go/ssa/ssautil"
)

type Engine struct {
	repo     string
	module   string
	prog     *ssa.Program
	pkgs     []*packages.Package
	spkgs    []*ssa.Package
	specs    *SpecSet
	byPath   map[string]*ssa.Package
	fnIdx    map[string]*ssa.Function
	loadSecs float64
}

func goEnv() []string {
	env := os.Environ()
	env = append(env, "GOFLAGS=-mod=mod", "GOPROXY=off", "GOSUMDB=off", "GOTOOLCHAIN=local", "GOWORK=off")
	return env
}

func LoadEngine(repo, module string, patterns []string, specs *SpecSet, fileFilter *regexp.Regexp) (*Engine, error) {
	t0 := time.Now()
	cfg := &packages.Config{Mode: packages.LoadAllSyntax, Dir: filepath.Join(repo, module), BuildFlags: []string{"-tags=verif"}, Env: goEnv()}
	pkgs, err := packages.Load(cfg, patterns...)
	if err != nil {
		return nil, err
	}
	var errs []string
	packages.Visit(pkgs, nil, func(p *packages.Package) {
		for _, e := range p.Errors {
			errs = append(errs, e.Error())
		}
	})
	if len(errs) > 0 {
		return nil, fmt.Errorf("package errors: %s", strings.Join(errs, "; "))
	}
	prog, spkgs := ssautil.AllPackages(pkgs, ssa.GlobalDebug)
	prog.Build()
	e := &Engine{repo: repo, module: module, prog: prog, pkgs: pkgs, spkgs: spkgs, specs: specs, byPath: map[string]*ssa.Package{}, fnIdx: map[string]*ssa.Function{}}
	for _, sp := range prog.AllPackages() {
		e.byPath[sp.Pkg.Path()] = sp
	}
	// contract files of the loaded (root) packages
	for _, p := range pkgs {
		for _, f := range p.GoFiles {
			base := filepath.Base(f)
			if strings.HasPrefix(base, "zz_contracts") && strings.HasSuffix(base, "_verif.go") && (fileFilter == nil || fileFilter.MatchString(base)) {
				if err := specs.LoadFile(f, p.PkgPath, false); err != nil {
					return nil, err
				}
			}
		}
		// tag-guarded file may be excluded from GoFiles if the tag were off; also look on disk
	}
	e.index()
	e.loadSecs = time.Since(t0).Seconds()
	return e, nil
}

func (e *Engine) index() {
	for fn := range ssautil.AllFunctions(e.prog) {
		if fn.Synthetic != "" && fn.Parent() == nil {
			continue
		}
		if fn.Origin() != nil {
			continue // instances: contracts attach to the generic origin
		}
		e.fnIdx[fnKey(fn)] = fn
	}
	for _, sp := range e.prog.AllPackages() {
		for _, m := range sp.Members {
			if f, ok := m.(*ssa.Function); ok {
				e.fnIdx[fnKey(f)] = f
				for _, an := range f.AnonFuncs {
					e.indexAnon(an)
				}
			}
			if tn, ok := m.(*ssa.Type); ok {
				T := tn.Type()
				for _, TT := range []types.Type{T, types.NewPointer(T)} {
					ms := e.prog.MethodSets.MethodSet(TT)
					for i := 0; i < ms.Len(); i++ {
						if f := e.prog.MethodValue(ms.At(i)); f != nil && f.Synthetic == "" {
							e.fnIdx[fnKey(f)] = f
							for _, an := range f.AnonFuncs {
								e.indexAnon(an)
							}
						}
					}
				}
				// generic types: methods are reachable via the named type's methods
				if n, ok := T.(*types.Named); ok {
					for i := 0; i < n.NumMethods(); i++ {
						if f := e.prog.FuncValue(n.Method(i)); f != nil {
							e.fnIdx[fnKey(f)] = f
							for _, an := range f.AnonFuncs {
								e.indexAnon(an)
							}
						}
					}
				}
			}
		}
	}
}

func (e *Engine) indexAnon(f *ssa.Function) {
	e.fnIdx[fnKey(f)] = f
	for _, an := range f.AnonFuncs {
		e.indexAnon(an)
	}
}

func (e *Engine) findPkg(name string, from *types.Package) *types.Package {
	if from != nil {
		for _, imp := range from.Imports() {
			if imp.Name() == name {
				return imp
			}
		}
	}
	for _, sp := range e.prog.AllPackages() {
		if sp.Pkg.Name() == name && (from == nil || sp.Pkg != from) {
			// only accept unambiguous matches by name among hive.go + stdlib
			return sp.Pkg
		}
	}
	return nil
}

func (e *Engine) namedType(full string) *types.Named {
	i := strings.LastIndex(full, ".")
	if i < 0 {
		return nil
	}
	sp := e.byPath[full[:i]]
	if sp == nil {
		return nil
	}
	o := sp.Pkg.Scope().Lookup(full[i+1:])
	if o == nil {
		return nil
	}
	n, _ := o.Type().(*types.Named)
	return n
}

var reErrName = regexp.MustCompile(`^Err[A-Z]`)

func (e *Engine) isSentinel(v *types.Var) bool {
	if v.Pkg() == nil || v.Parent() != v.Pkg().Scope() {
		return false
	}
	if !reErrName.MatchString(v.Name()) {
		return false
	}
	return types.Identical(v.Type(), types.Universe.Lookup("error").Type())
}

func (e *Engine) isSentinelGlobal(g *ssa.Global) bool {
	v, ok := g.Object().(*types.Var)
	return ok && e.isSentinel(v)
}

// ---------- translation of one function ----------

func (e *Engine) newTrans(fn *ssa.Function, ct *Contract, key string, inst string, subst map[string]types.Type) *FnTrans {
	return &FnTrans{eng: e, fn: fn, ct: ct, key: key, inst: inst, subst: subst,
		dtSeen: map[string]bool{}, declared: map[string]bool{}, compSort: map[string]string{}, vals: map[ssa.Value]Val{},
		blkOut: map[*ssa.BasicBlock]*State{}, reach: map[*ssa.BasicBlock]string{}, edgeC: map[[2]int]string{},
		counters: map[string]int{}, abstr: map[string]bool{}, trusted: map[string]bool{}, strs: map[string]string{}, typeIDs: map[string]int{},
		sentinels: map[string]string{}, ranges: map[*ssa.Range]*rangeState{}, loopPre: map[*ssa.BasicBlock]*State{}, ghostDone: map[*ssa.Return]bool{}, compT: map[string]types.Type{}, gaddr: map[string]string{}, heldAtEntry: map[string][]string{}, autoInv: map[*ssa.BasicBlock][3]string{}, autoPhi: map[*ssa.BasicBlock]*ssa.Phi{}}
}

type FnResult struct {
	Key     string
	Inst    string
	Obls    []*Obligation
	Err     error
	Abstr   []string
	Trusted []string
	Loops   int
	Lines   int
}

// VerifyFunction generates the obligations of one function under contract (one per instantiation).
// instType resolves a type named in an `instantiate` clause: basic types, types of the function's package,
// pkg.Type, [N]T and []T.
func (e *Engine) instType(tn string, pkg *types.Package) types.Type {
	tn = strings.TrimSpace(tn)
	if T := basicTypes[tn]; T != nil {
		return T
	}
	if strings.HasPrefix(tn, "[]") {
		if el := e.instType(tn[2:], pkg); el != nil {
			return types.NewSlice(el)
		}
		return nil
	}
	if k := strings.Index(tn, "["); k > 0 && strings.HasSuffix(tn, "]") {
		// Generic[T1, T2]: a generic named type of the package instantiated at resolved arguments
		G := e.instType(tn[:k], pkg)
		named, _ := G.(*types.Named)
		if named == nil {
			return nil
		}
		var targs []types.Type
		for _, a := range splitTopCommas(tn[k+1 : len(tn)-1]) {
			A := e.instType(a, pkg)
			if A == nil {
				return nil
			}
			targs = append(targs, A)
		}
		I, err := types.Instantiate(nil, named, targs, true)
		if err != nil {
			return nil
		}
		return I
	}
	if strings.HasPrefix(tn, "[") {
		if k := strings.Index(tn, "]"); k > 0 {
			var n int64
			if _, err := fmt.Sscanf(tn[1:k], "%d", &n); err == nil {
				if el := e.instType(tn[k+1:], pkg); el != nil {
					return types.NewArray(el, n)
				}
			}
		}
		return nil
	}
	if i := strings.Index(tn, "."); i > 0 {
		if p := e.findPkg(tn[:i], pkg); p != nil {
			if o := p.Scope().Lookup(tn[i+1:]); o != nil {
				return o.Type()
			}
		}
		return nil
	}
	if o := pkg.Scope().Lookup(tn); o != nil {
		return o.Type()
	}
	return nil
}

func (e *Engine) Translate(key string, ct *Contract) []*FnResult {
	base := key
	if i := strings.Index(base, "#"); i >= 0 {
		base = base[:i] // contract variant: same function, different proof mode / clauses
	}
	fn := e.fnIdx[base]
	if fn == nil {
		return []*FnResult{{Key: key, Err: fmt.Errorf("stale contract: function %s not found in the current tree (%s:%d)", key, ct.File, ct.Line)}}
	}
	// instantiations
	var insts []map[string]types.Type
	var names []string
	badInst := ""
	if len(ct.Inst) > 0 {
		var tps []string
		for tp := range ct.Inst {
			tps = append(tps, tp)
		}
		sort.Strings(tps)
		var rec func(i int, cur map[string]types.Type, nm []string)
		rec = func(i int, cur map[string]types.Type, nm []string) {
			if i == len(tps) {
				c := map[string]types.Type{}
				for k, v := range cur {
					c[k] = v
				}
				insts = append(insts, c)
				names = append(names, strings.Join(nm, ","))
				return
			}
			for _, tn := range ct.Inst[tps[i]] {
				T := e.instType(tn, fn.Pkg.Pkg)
				if T == nil {
					badInst = tn
					insts = nil
					return
				}
				cur[tps[i]] = T
				rec(i+1, cur, append(nm, tn))
			}
		}
		rec(0, map[string]types.Type{}, nil)
	} else {
		insts = []map[string]types.Type{{}}
		names = []string{""}
	}
	if badInst != "" {
		return []*FnResult{{Key: key, Err: fmt.Errorf("instantiate: unknown type %q (%s:%d)", badInst, ct.File, ct.Line)}}
	}
	var out []*FnResult
	for i, s := range insts {
		t := e.newTrans(fn, ct, key, names[i], s)
		err := t.run()
		r := &FnResult{Key: key, Inst: names[i], Obls: t.obls, Err: err, Loops: len(t.loops), Lines: len(t.lines)}
		for a := range t.abstr {
			r.Abstr = append(r.Abstr, a)
		}
		sort.Strings(r.Abstr)
		for a := range t.trusted {
			r.Trusted = append(r.Trusted, a)
		}
		sort.Strings(r.Trusted)
		for _, o := range t.obls {
			o.smt = t.assemble(o)
		}
		out = append(out, r)
	}
	return out
}

const prelude = `(set-option :produce-models true)
(set-logic ALL)
(declare-datatypes ((Slice 0)) (((mk-slice (s.base Int) (s.off Int) (s.len Int) (s.cap Int)))))
(define-fun wf-slice ((s Slice)) Bool (and (>= (s.base s) 0) (>= (s.off s) 0) (>= (s.len s) 0) (<= (s.len s) (s.cap s)) (<= (+ (s.off s) (s.cap s)) 9223372036854775807) (=> (= (s.base s) 0) (= (s.cap s) 0))))
(declare-sort Str 0)
(declare-fun slen (Str) Int)
(declare-fun sidx (Str Int) Int)
(declare-fun scat (Str Str) Str)
(declare-fun ssub (Str Int Int) Str)
(declare-fun str_empty () Str)
(assert (= (slen str_empty) 0))
(assert (forall ((s Str)) (! (>= (slen s) 0) :pattern ((slen s)))))
(declare-fun scmplt (Str Str) Bool)
(declare-fun scmple (Str Str) Bool)
(declare-fun scmpgt (Str Str) Bool)
(declare-fun scmpge (Str Str) Bool)
(declare-fun bytes2str ((Array Int Int) Int Int) Str)
(assert (forall ((a (Array Int Int)) (o Int) (n Int)) (! (=> (>= n 0) (= (slen (bytes2str a o n)) n)) :pattern ((bytes2str a o n)))))
(assert (forall ((a Str) (b Str)) (! (= (slen (scat a b)) (+ (slen a) (slen b))) :pattern ((scat a b)))))
(assert (forall ((a Str)) (! (and (= (scat a str_empty) a) (= (scat str_empty a) a)) :pattern ((scat a str_empty)) :pattern ((scat str_empty a)))))
(declare-fun sprefix (Str Str) Bool)
(assert (forall ((p Str) (s Str)) (! (=> (sprefix p s) (<= (slen p) (slen s))) :pattern ((sprefix p s)))))
(assert (forall ((p Str) (x Str)) (! (sprefix p (scat p x)) :pattern ((scat p x)))))
(assert (forall ((s Str)) (! (sprefix str_empty s) :pattern ((sprefix str_empty s)))))
(declare-sort Float 0)
(declare-fun fzero () Float)
(declare-fun fadd (Float Float) Float)
(declare-fun fsub (Float Float) Float)
(declare-fun fmul (Float Float) Float)
(declare-fun fdiv (Float Float) Float)
(declare-fun fneg (Float) Float)
(declare-fun flt (Float Float) Bool)
(declare-fun fle (Float Float) Bool)
(declare-fun fgt (Float Float) Bool)
(declare-fun fge (Float Float) Bool)
(declare-fun feq (Float Float) Bool)
(declare-fun int2float (Int) Float)
(declare-fun err.is (Int Int) Bool)
(assert (forall ((e Int)) (! (not (err.is 0 e)) :pattern ((err.is 0 e)))))
(declare-fun dyn.type (Int) Int)
(declare-fun bit.and (Int Int) Int)
(declare-fun bit.or (Int Int) Int)
(declare-fun bit.xor (Int Int) Int)
(declare-fun bit.andnot (Int Int) Int)
`

func pow2Def() string {
	var b strings.Builder
	b.WriteString("(define-fun pow2 ((k Int)) Int ")
	n := 0
	for k := 0; k <= 255; k++ {
		fmt.Fprintf(&b, "(ite (= k %d) %s ", k, pow2(k).String())
		n++
	}
	b.WriteString("0")
	b.WriteString(strings.Repeat(")", n))
	b.WriteString(")\n")
	// mulpow2(v, k) = v * 2^k as a case split with a linear term per case
	b.WriteString("(define-fun mulpow2 ((v Int) (k Int)) Int ")
	for k := 0; k <= 255; k++ {
		fmt.Fprintf(&b, "(ite (= k %d) (* %s v) ", k, pow2(k).String())
	}
	b.WriteString("0")
	b.WriteString(strings.Repeat(")", 256))
	b.WriteString(")\n")
	return b.String()
}

// findForall locates the first "(forall ((bv$NAME SORT)) BODY)" subterm of s at or after from and
// returns its start, end (exclusive), variable, sort and body.
func findForall(s string, from int) (int, int, string, string, string, bool) {
	return findForallP(s, from, "(forall ((bv$")
}

func findForallP(s string, from int, prefix string) (int, int, string, string, string, bool) {
	i := strings.Index(s[from:], prefix)
	if i < 0 {
		return 0, 0, "", "", "", false
	}
	i += from
	// variable list: single variable only
	j := i + len("(forall ((")
	k := strings.Index(s[j:], " ")
	if k < 0 {
		return 0, 0, "", "", "", false
	}
	name := s[j : j+k]
	// sort: balanced up to the closing "))"
	p := j + k + 1
	depth := 0
	q0 := p
	for ; q0 < len(s); q0++ {
		if s[q0] == '(' {
			depth++
		} else if s[q0] == ')' {
			if depth == 0 {
				break
			}
			depth--
		}
	}
	sort := s[p:q0]
	if q0+1 >= len(s) || s[q0+1] != ')' {
		return 0, 0, "", "", "", false // more than one bound variable
	}
	bodyStart := q0 + 3
	// end of the forall term
	depth = 0
	e := i
	inq := false
	for ; e < len(s); e++ {
		c := s[e]
		if c == '|' {
			inq = !inq
		}
		if inq {
			continue
		}
		if c == '(' {
			depth++
		} else if c == ')' {
			depth--
			if depth == 0 {
				break
			}
		}
	}
	if e >= len(s) || bodyStart > e {
		return 0, 0, "", "", "", false
	}
	return i, e + 1, name, sort, strings.TrimSpace(s[bodyStart:e]), true
}

func substVar(body, name, with string) string {
	// bound variable names (bv$x) are not prefixes of other identifiers except bv$x1...: match on delimiters
	var b strings.Builder
	for i := 0; i < len(body); {
		if strings.HasPrefix(body[i:], name) {
			end := i + len(name)
			if end == len(body) || strings.ContainsRune(" ()", rune(body[end])) {
				if i == 0 || strings.ContainsRune(" ()", rune(body[i-1])) {
					b.WriteString(with)
					i = end
					continue
				}
			}
		}
		b.WriteByte(body[i])
		i++
	}
	return b.String()
}

// skolemHint: when the goal is universally quantified over one variable, prove it for a fresh
// constant and offer the solver the instances of the (single-variable, same-sort) quantified
// hypotheses at that constant. Sound: instances of hypotheses are consequences of them.
func skolemHint(lines []string, goalNeg string) (extra []string, newGoal string) {
	newGoal = goalNeg
	st, en, name, sort, body, ok := findForallP(goalNeg, 0, "(forall ((")
	if !ok {
		return skolemHint2(lines, goalNeg)
	}
	if st != 0 || strings.Contains(body, "(forall ") || strings.Contains(body, "(exists ") {
		return nil, goalNeg
	}
	if strings.HasPrefix(body, "(! ") {
		return nil, goalNeg // patterned quantifier: leave it to the solver
	}
	sk := "sk$" + strings.NewReplacer("bv$", "", "$", "_").Replace(name)
	extra = append(extra, fmt.Sprintf("(declare-fun %s () %s)", sk, sort))
	newGoal = goalNeg[:st] + substVar(body, name, sk) + goalNeg[en:]
	n := 0
	for li := len(lines) - 1; li >= 0; li-- { // latest hypotheses first: they describe the state the goal is about
		l := lines[li]
		if !strings.HasPrefix(l, "(assert ") {
			continue
		}
		pos := 0
		for n < 120 {
			s2, e2, nm, so, bd, ok := findForall(l, pos)
			if !ok {
				break
			}
			pos = e2
			if so != sort || strings.Contains(bd, "(forall ") {
				continue
			}
			extra = append(extra, l[:s2]+substVar(bd, nm, sk)+l[e2:])
			n++
			if sort == "Int" && strings.Contains(bd, "(+ (s.off ") {
				// sequences after a removal / insertion: the neighbour as well
				extra = append(extra, l[:s2]+substVar(bd, nm, "(+ "+sk+" 1)")+l[e2:])
				n++
			}
		}
	}
	if sort != "Int" && sort != "Bool" && !strings.HasPrefix(sort, "(") {
		// hypotheses over two values of this sort (injectivity, ...) at the pairs built from the constant and the
		// declared constants of the same sort (parameters, locals)
		cands := []string{sk}
		for _, l := range lines {
			if strings.HasPrefix(l, "(declare-fun ") && strings.HasSuffix(l, " () "+sort+")") && len(cands) < 6 {
				cands = append(cands, strings.TrimSuffix(strings.TrimPrefix(l, "(declare-fun "), " () "+sort+")"))
			}
		}
		n2 := 0
		for _, l := range lines {
			if !strings.HasPrefix(l, "(assert ") || !strings.Contains(l, "(forall ((bv$") {
				continue
			}
			pos := 0
			for n2 < 200 {
				s2, e2, nm2, so2, bd2, ok2 := findForall2(l, pos)
				if !ok2 {
					break
				}
				pos = e2
				if so2[0] != sort || so2[1] != sort || strings.Contains(bd2, "(forall ") {
					continue
				}
				for _, a := range cands {
					for _, b := range cands {
						if a == b {
							continue
						}
						extra = append(extra, l[:s2]+substVar(substVar(bd2, nm2[0], a), nm2[1], b)+l[e2:])
						n2++
					}
				}
			}
		}
	}
	if sort == "Int" {
		// hypotheses over two integers (sorted, duplicate-free, ...) at the pairs built from the constant, its
		// successor and the ground slice indices of the VC (e.g. the position a loop stopped at)
		cands := []string{sk, "(+ " + sk + " 1)"}
		seen := map[string]bool{}
		for _, l := range append(append([]string{}, lines...), goalNeg) {
			if strings.Contains(l, "(forall ") || len(cands) >= 10 {
				continue
			}
			for _, m := range reOffIdx.FindAllStringSubmatch(l, -1) {
				if strings.HasPrefix(m[2], "bv$") || seen[m[2]] || len(cands) >= 10 {
					continue
				}
				seen[m[2]] = true
				cands = append(cands, m[2])
			}
		}
		n2 := 0
		for _, l := range lines {
			if !strings.HasPrefix(l, "(assert ") || !strings.Contains(l, "(forall ((bv$") {
				continue
			}
			pos := 0
			for n2 < 300 {
				s2, e2, nm2, so2, bd2, ok2 := findForall2(l, pos)
				if !ok2 {
					break
				}
				pos = e2
				if so2[0] != "Int" || so2[1] != "Int" || strings.Contains(bd2, "(forall ") {
					continue
				}
				for _, a := range cands {
					for _, b := range cands {
						extra = append(extra, l[:s2]+substVar(substVar(bd2, nm2[0], a), nm2[1], b)+l[e2:])
						n2++
					}
				}
			}
		}
	}
	return extra, newGoal
}

// findForall2 parses "(forall ((a S) (b S)) body)" with exactly two bound variables at s[from:].
func findForall2(s string, from int) (st, en int, names, sorts [2]string, body string, ok bool) {
	i := strings.Index(s[from:], "(forall ((")
	if i < 0 {
		return
	}
	i += from
	p := i + len("(forall (")
	for k := 0; k < 2; k++ {
		if p >= len(s) || s[p] != '(' {
			return
		}
		e := balancedTerm(s, p)
		f := strings.SplitN(s[p+1:e-1], " ", 2)
		if len(f) != 2 {
			return
		}
		names[k], sorts[k] = f[0], f[1]
		p = e
		if k == 0 {
			if p >= len(s) || s[p] != ' ' {
				return
			}
			p++
		}
	}
	if p >= len(s) || s[p] != ')' {
		return // more than two variables
	}
	p++
	if p >= len(s) || s[p] != ' ' {
		return
	}
	be := balancedTerm(s, p+1)
	if be >= len(s) || s[be] != ')' {
		return
	}
	return i, be + 1, names, sorts, s[p+1 : be], true
}

// skolemHint2: a goal quantified over two integer variables (typically "sorted": forall i < j) is proved for
// two fresh constants; hypotheses quantified over one or two integers are instantiated at those constants
// and their successors (the index shifts that removals and insertions in a sequence produce). Sound:
// instances of hypotheses.
func skolemHint2(lines []string, goalNeg string) (extra []string, newGoal string) {
	st, en, names, sorts, body, ok := findForall2(goalNeg, 0)
	if !ok || st != 0 || sorts[0] != sorts[1] || strings.Contains(body, "(forall ") || strings.Contains(body, "(exists ") || strings.HasPrefix(body, "(! ") {
		return nil, goalNeg
	}
	gsort := sorts[0]
	var sk [2]string
	for k := 0; k < 2; k++ {
		sk[k] = "sk$" + strings.NewReplacer("bv$", "", "$", "_").Replace(names[k])
		extra = append(extra, fmt.Sprintf("(declare-fun %s () %s)", sk[k], gsort))
	}
	newGoal = goalNeg[:st] + substVar(substVar(body, names[0], sk[0]), names[1], sk[1]) + goalNeg[en:]
	cands := []string{sk[0], sk[1]}
	if gsort == "Int" {
		cands = append(cands, "(+ "+sk[0]+" 1)", "(+ "+sk[1]+" 1)")
	}
	n := 0
	// the exact pair for every hypothesis first (latest hypotheses first: they describe the state the goal is
	// about), the shifted pairs afterwards while the budget lasts
	for li := len(lines) - 1; li >= 0; li-- {
		l := lines[li]
		if !strings.HasPrefix(l, "(assert ") || !strings.Contains(l, "(forall ((bv$") {
			continue
		}
		pos := 0
		for {
			s2, e2, nm2, so2, bd2, ok2 := findForall2(l, pos)
			if !ok2 {
				break
			}
			pos = e2
			if so2[0] != gsort || so2[1] != gsort || !strings.HasPrefix(nm2[0], "bv$") || strings.Contains(bd2, "(forall ") {
				continue
			}
			extra = append(extra, l[:s2]+substVar(substVar(bd2, nm2[0], sk[0]), nm2[1], sk[1])+l[e2:])
		}
	}
	for li := len(lines) - 1; li >= 0; li-- {
		l := lines[li]
		if !strings.HasPrefix(l, "(assert ") || !strings.Contains(l, "(forall ((bv$") {
			continue
		}
		pos := 0
		for n < 400 {
			if s2, e2, nm2, so2, bd2, ok2 := findForall2(l, pos); ok2 && so2[0] == gsort && so2[1] == gsort && strings.HasPrefix(nm2[0], "bv$") && (func() bool { s1, _, _, _, _, ok1 := findForall(l, pos); return !ok1 || s1 >= s2 })() {
				pos = e2
				if strings.Contains(bd2, "(forall ") {
					continue
				}
				for _, a := range cands {
					for _, b := range cands {
						extra = append(extra, l[:s2]+substVar(substVar(bd2, nm2[0], a), nm2[1], b)+l[e2:])
						n++
					}
				}
				continue
			}
			s2, e2, nm, so, bd, ok1 := findForall(l, pos)
			if !ok1 {
				break
			}
			pos = e2
			if so != gsort || strings.Contains(bd, "(forall ") {
				continue
			}
			for _, a := range cands {
				extra = append(extra, l[:s2]+substVar(bd, nm, a)+l[e2:])
				n++
			}
		}
	}
	return extra, newGoal
}

var reOffIdx = regexp.MustCompile(`\(\+ \(s\.off ([A-Za-z0-9_.$!@|]+)\) ([A-Za-z0-9_.$!@|]+)\)`)

// indexHints: instances of single-variable quantified hypotheses whose body indexes a slice R at
// (+ (s.off R) bv$x), at every ground index G for which (+ (s.off R) G) occurs in the VC. This is
// E-matching modulo the "offset + index" shape of slice accesses, which the solvers' triggers
// cannot do. Sound: instances of hypotheses.
// offIdxTerms: all occurrences of (+ (s.off R) G) in text, with R and G arbitrary balanced terms; returned like the
// submatches of reOffIdx: [whole, R, G]
func offIdxTerms(text string) [][]string {
	var out [][]string
	const pre = "(+ (s.off "
	for pos := 0; ; {
		k := strings.Index(text[pos:], pre)
		if k < 0 {
			break
		}
		k += pos
		pos = k + len(pre)
		re := balancedTerm(text, pos)
		if re <= pos || re+2 > len(text) || text[re] != ')' || text[re+1] != ' ' {
			continue
		}
		gs := re + 2
		ge := balancedTerm(text, gs)
		if ge <= gs || ge >= len(text) || text[ge] != ')' {
			continue
		}
		out = append(out, []string{text[k : ge+1], text[pos:re], text[gs:ge]})
	}
	return out
}

func indexHints(lines []string, goal string) []string {
	ground := map[string][]string{} // slice term -> ground index terms
	seen := map[string]bool{}
	add := func(text string) {
		for _, m := range offIdxTerms(text) {
			if strings.Contains(m[2], "bv$") || strings.Contains(m[2], "tf$") || strings.Contains(m[2], "lf$") || strings.Contains(m[2], "fr$") || len(m[2]) > 400 {
				continue // not ground (mentions a bound variable) or too large to be a useful instance
			}
			if strings.HasPrefix(m[2], "bv$") || strings.HasPrefix(m[2], "ak") || strings.HasPrefix(m[2], "sk$") && false {
				continue
			}
			k := m[1] + "|" + m[2]
			if !seen[k] {
				seen[k] = true
				ground[m[1]] = append(ground[m[1]], m[2])
			}
		}
	}
	// SSA temporaries that name a slice: (assert (= tN <term>)) - an access through the temporary is an access to the
	// term it stands for (hypotheses written over the heap mention the term, the code mentions the temporary)
	defs := map[string]string{}
	for _, l := range lines {
		if strings.HasPrefix(l, "(assert (= t") && strings.HasSuffix(l, "))") {
			body := l[len("(assert (= ") : len(l)-2]
			if k := strings.Index(body, " "); k > 0 && balancedTerm(body, k+1) == len(body) {
				defs[body[:k]] = body[k+1:]
			}
		}
	}
	addRaw := add
	add = func(text string) {
		addRaw(text)
		for _, m := range offIdxTerms(text) {
			if d, ok := defs[m[1]]; ok && !strings.Contains(m[2], "bv$") && len(m[2]) <= 400 {
				k := d + "|" + m[2]
				if !seen[k] {
					seen[k] = true
					ground[d] = append(ground[d], m[2])
				}
			}
		}
	}
	for _, l := range lines {
		if !strings.Contains(l, "(forall ") {
			add(l)
		}
	}
	add(goal)
	var out []string
	n := 0
	nsk := 0
	// latest hypotheses first: the ones about the current loop iteration / the state at the obligation are the ones a
	// proof needs, and the number of instances is capped
	work := make([]string, 0, len(lines))
	for k := len(lines) - 1; k >= 0; k-- {
		work = append(work, lines[k])
	}
	for pass := 0; pass < 2; pass++ {
		for li := 0; li < len(work); li++ {
			l := work[li]
			if !strings.HasPrefix(l, "(assert ") {
				continue
			}
			pos := 0
			for n < 90 {
				s2, e2, nm, so, bd, ok := findForall(l, pos)
				if !ok {
					break
				}
				pos = e2
				if so != "Int" || strings.Contains(bd, "(forall ") {
					continue
				}
				for _, m := range offIdxTerms(bd) {
					if m[2] != nm {
						continue
					}
					for _, g := range ground[m[1]] {
						inst := l[:s2] + substVar(bd, nm, g) + l[e2:]
						if !seen["inst|"+inst] {
							seen["inst|"+inst] = true
							n++
							// a positive existential at the end of a chain of implications: name its witness, so that
							// the witness index becomes a ground term for further instances
							if k := strings.Index(inst, "(exists ((bv$"); k >= 0 && strings.Count(inst[:k], "(forall") == 0 && onlyImplicationPrefix(inst[:k]) {
								es, ee, enm, eso, ebd, ok2 := findExists(inst, k)
								if ok2 && strings.Trim(inst[ee:], ")") == "" {
									nsk++
									w := fmt.Sprintf("ex$%d", nsk)
									out = append(out, fmt.Sprintf("(declare-fun %s () %s)", w, eso))
									inst = inst[:es] + substVar(ebd, enm, w) + inst[ee:]
									add(inst)
									work = append(work, inst) // may itself enable instances (it has no quantifier left)
								}
							}
							out = append(out, inst)
						}
					}
				}
			}
		}
	}
	return out
}

// balancedTerm returns the end index (exclusive) of the s-expression starting at s[i].
func balancedTerm(s string, i int) int {
	if i >= len(s) {
		return i
	}
	if s[i] != '(' {
		j := i
		if s[j] == '|' {
			j++
			for j < len(s) && s[j] != '|' {
				j++
			}
			return j + 1
		}
		for j < len(s) && s[j] != ' ' && s[j] != ')' {
			j++
		}
		return j
	}
	depth := 0
	inBar := false
	for j := i; j < len(s); j++ {
		switch {
		case s[j] == '|':
			inBar = !inBar
		case inBar:
		case s[j] == '(':
			depth++
		case s[j] == ')':
			depth--
			if depth == 0 {
				return j + 1
			}
		}
	}
	return len(s)
}

var byteSpecFuns = map[string]int{"sf$le16": 2, "sf$le32": 4, "sf$le64": 8, "sf$be64": 8, "sf$lenprefix": 4}

// byteHints: byte-string spec functions (le16/le32/le64/be64/lenprefix) read a few consecutive cells
// behind an offset. Hypotheses of the form (forall i. ... (select A i) ...) - frames of appends and
// copies - are instantiated at those cells for every ground application in the goal and the
// quantifier-free hypotheses. Sound: instances of hypotheses.
func byteHints(lines []string, goal string) []string {
	var cands, rel []string
	seen := map[string]bool{}
	scan := func(text string) {
		for fn, w := range byteSpecFuns {
			pat := "(" + fn + " "
			pos := 0
			for {
				k := strings.Index(text[pos:], pat)
				if k < 0 {
					break
				}
				k += pos
				pos = k + len(pat)
				a := balancedTerm(text, pos)
				if a >= len(text) || text[a] != ' ' {
					continue
				}
				o := balancedTerm(text, a+1)
				off := text[a+1 : o]
				if strings.Contains(off, "bv$") || strings.Contains(off, "sp$") {
					continue
				}
				for d := 0; d < w; d++ {
					c := off
					if d > 0 {
						c = fmt.Sprintf("(+ %s %d)", off, d)
					}
					if !seen[c] {
						seen[c] = true
						cands = append(cands, c)
					}
				}
				// offset into a slice: (+ (s.off R) X) - the cells X..X+w-1 relative to the slice
				if strings.HasPrefix(off, "(+ (s.off ") {
					r := balancedTerm(off, len("(+ "))
					if r < len(off) && off[r] == ' ' {
						x := strings.TrimSuffix(off[r+1:], ")")
						for d := 0; d < w; d++ {
							c := x
							if d > 0 {
								c = fmt.Sprintf("(+ %s %d)", x, d)
							}
							if !seen["rel|"+c] {
								seen["rel|"+c] = true
								rel = append(rel, c)
							}
						}
					}
				}
			}
		}
	}
	// every ground slice index (+ (s.off R) X) is a relative candidate as well
	scanIdx := func(text string) {
		pos := 0
		for {
			k := strings.Index(text[pos:], "(+ (s.off ")
			if k < 0 {
				return
			}
			k += pos
			pos = k + 3
			r := balancedTerm(text, k+3)
			if r >= len(text) || text[r] != ' ' {
				continue
			}
			xe := balancedTerm(text, r+1)
			if xe >= len(text) || text[xe] != ')' {
				continue
			}
			x := text[r+1 : xe]
			if strings.Contains(x, "bv$") || strings.Contains(x, "sp$") || strings.Contains(x, "tf$") {
				continue
			}
			if !seen["rel|"+x] {
				seen["rel|"+x] = true
				rel = append(rel, x)
			}
		}
	}
	for _, l := range lines {
		if !strings.Contains(l, "(forall ") && !strings.HasPrefix(l, "(define-fun") {
			scan(l)
		}
	}
	scan(goal)
	if len(cands) == 0 || len(cands) > 48 {
		return nil
	}
	for _, l := range lines {
		if !strings.Contains(l, "(forall ") && !strings.HasPrefix(l, "(define-fun") {
			scanIdx(l)
		}
	}
	scanIdx(goal)
	if len(rel) > 48 {
		rel = rel[:48]
	}
	var out []string
	for _, l := range lines {
		if !strings.HasPrefix(l, "(assert ") || !strings.Contains(l, "(forall ((bv$") {
			continue
		}
		pos := 0
		for len(out) < 400 {
			s2, e2, nm, so, bd, ok := findForall(l, pos)
			if !ok {
				break
			}
			pos = e2
			if so != "Int" || strings.Contains(bd, "(forall ") || strings.Contains(bd, "(exists ") {
				continue
			}
			if strings.Contains(bd, "(+ (s.off ") && strings.Contains(bd, " "+nm+")") {
				for _, g := range rel {
					out = append(out, l[:s2]+substVar(bd, nm, g)+l[e2:])
				}
			}
			if !strings.Contains(bd, " "+nm+")") {
				continue // the variable is not used directly as an index
			}
			for _, g := range cands {
				out = append(out, l[:s2]+substVar(bd, nm, g)+l[e2:])
			}
		}
	}
	return out
}

// reOffIdxVar: does the body index a slice as (+ (s.off R) v)?
func reOffIdxVar(bd, v string) bool {
	for _, m := range reOffIdx.FindAllStringSubmatch(bd, -1) {
		if m[2] == v {
			return true
		}
	}
	return false
}

// akHints: the axioms of append / copy are quantified over absolute array indices (variable ak). They are
// instantiated at the absolute indices (+ (s.off R) X) that occur in the (skolemized) goal or in its skolem
// instances. Sound: instances of hypotheses.
func akHints(lines []string, texts []string) []string {
	var idx []string
	seen := map[string]bool{}
	for _, text := range texts {
		pos := 0
		for {
			k := strings.Index(text[pos:], "(+ (s.off ")
			if k < 0 {
				break
			}
			k += pos
			pos = k + 3
			e := balancedTerm(text, k)
			term := text[k:e]
			if !strings.Contains(term, "sk$") || strings.Contains(term, "bv$") || seen[term] || len(idx) >= 12 {
				continue
			}
			seen[term] = true
			idx = append(idx, term)
		}
	}
	if len(idx) == 0 {
		return nil
	}
	var out []string
	for _, l := range lines {
		if !strings.HasPrefix(l, "(assert ") || !strings.Contains(l, "(forall ((ak Int))") {
			continue
		}
		s2, e2, nm, _, bd, ok := findForallP(l, 0, "(forall ((ak ")
		if !ok {
			continue
		}
		if strings.HasPrefix(bd, "(! ") {
			// strip the pattern annotation: (! body :pattern (...))
			be := balancedTerm(bd, 3)
			bd = bd[3:be]
		}
		for _, g := range idx {
			out = append(out, l[:s2]+substVar(bd, nm, g)+l[e2:])
		}
	}
	return out
}

// hoistForall: a goal of the shape (=> A (=> B (forall ...))) - the quantifier in positive position at the
// end of a chain of implications whose antecedents do not bind it - is split into the chain prefix
// "(=> A (=> B " and the quantified formula, which can then be proved for fresh constants.
func hoistForall(goal string) (prefix, quant string, ok bool) {
	p := 0
	depth := 0
	for {
		if strings.HasPrefix(goal[p:], "(forall ((") {
			e := balancedTerm(goal, p)
			if strings.Trim(goal[e:], ")") != "" || len(goal)-e != depth {
				return "", "", false
			}
			return goal[:p], goal[p:e], true
		}
		if !strings.HasPrefix(goal[p:], "(=> ") {
			return "", "", false
		}
		a := balancedTerm(goal, p+4)
		if a >= len(goal) || goal[a] != ' ' {
			return "", "", false
		}
		if strings.Contains(goal[p+4:a], "bv$") && strings.Contains(goal[p+4:a], "(forall ") {
			// quantified antecedent: fine, it is closed
		}
		p = a + 1
		depth++
	}
}

func onlyImplicationPrefix(p string) bool {
	// "(assert (=> A (=> B " : every open paren group before the tail is an implication whose antecedent is closed
	p = strings.TrimSpace(p)
	if !strings.HasPrefix(p, "(assert ") {
		return false
	}
	p = strings.TrimSpace(p[len("(assert "):])
	for p != "" {
		if !strings.HasPrefix(p, "(=> ") {
			return false
		}
		p = p[4:]
		// skip one balanced term (the antecedent)
		depth, i := 0, 0
		for ; i < len(p); i++ {
			if p[i] == '(' {
				depth++
			} else if p[i] == ')' {
				depth--
			}
			if depth == 0 && (p[i] == ' ' || p[i] == ')') {
				if p[i] == ')' {
					i++
				}
				break
			}
		}
		if i >= len(p) {
			return strings.TrimSpace(p[i:]) == ""
		}
		p = strings.TrimSpace(p[i:])
	}
	return true
}

func findExists(s string, from int) (int, int, string, string, string, bool) {
	t := strings.Replace(s[from:], "(exists ((bv$", "(forall ((bv$", 1)
	st, en, nm, so, bd, ok := findForall(s[:from]+t, from)
	return st, en, nm, so, bd, ok
}

// objectHints: hypotheses quantified over objects (spec variables declared with a pointer type,
// named bv$p_*) are instantiated at the function's pointer-valued SSA values declared before the
// obligation, and at the values those instances mention through one more heap read is left to the
// solver. Sound: instances of hypotheses.
func (t *FnTrans) objectHints(o *Obligation) []string {
	var terms []string
	for _, pt := range t.ptrTerms {
		if pt.line <= o.NLines {
			terms = append(terms, pt.name)
		}
	}
	if len(terms) == 0 {
		return nil
	}
	var out []string
	n := 0
	for _, l := range t.lines[:o.NLines] {
		if !strings.HasPrefix(l, "(assert ") || !strings.Contains(l, "(forall ((bv$p_") {
			continue
		}
		pos := 0
		for n < 120 {
			s2, e2, nm, so, bd, ok := findForallP(l, pos, "(forall ((bv$p_")
			if !ok {
				break
			}
			pos = e2
			if so != "Int" || strings.Contains(bd, "(forall ") {
				continue
			}
			for _, g := range terms {
				out = append(out, l[:s2]+substVar(bd, nm, g)+l[e2:])
				n++
			}
		}
	}
	return out
}

func (t *FnTrans) assemble(o *Obligation) string {
	var b strings.Builder
	b.WriteString("; obligation " + o.Name + "\n")
	if o.Note != "" {
		b.WriteString("; " + strings.ReplaceAll(o.Note, "\n", " ") + "\n")
	}
	if o.Pos.IsValid() {
		b.WriteString("; at " + o.Pos.String() + "\n")
	}
	body := strings.Join(t.lines[:o.NLines], "\n") + o.Goal + o.Guard
	for _, l := range strings.Split(prelude, "\n") {
		if strings.HasPrefix(l, "(assert (forall") {
			if o.Expect == "sat" {
				// vacuity covers: the fixed background axioms (consistent by construction) are left out so that
				// the solver can return a model; what is checked is that the contract's own assumptions are satisfiable
				continue
			}
			// background axioms are included only when the symbol they are about occurs in the VC
			// (unused quantified axioms made unrelated quantified obligations unstable)
			need := ""
			for _, sym := range []string{"bytes2str", "scat", "sprefix", "err.is", "slen"} {
				if strings.Contains(l, "("+sym+" ") {
					need = sym
					break
				}
			}
			if need != "" && !strings.Contains(body, need) {
				continue
			}
		}
		b.WriteString(l + "\n")
	}
	usesPow := strings.Contains(o.Goal, "pow2")
	if !usesPow {
		usesPow = strings.Contains(o.Guard, "pow2")
	}
	if !usesPow {
		for _, l := range t.lines[:o.NLines] {
			if strings.Contains(l, "(pow2 ") || strings.Contains(l, "(mulpow2 ") {
				usesPow = true
				break
			}
		}
	}
	if usesPow {
		b.WriteString(pow2Def())
	}
	for _, d := range t.dtDecl {
		b.WriteString(d + "\n")
	}
	for _, l := range t.lines[:o.NLines] {
		b.WriteString(l + "\n")
	}
	if o.Expect != "sat" {
		for _, h := range indexHints(t.lines[:o.NLines], o.Goal) {
			b.WriteString(h + "\n")
		}
		for _, h := range t.objectHints(o) {
			b.WriteString(h + "\n")
		}
		for _, h := range byteHints(t.lines[:o.NLines], o.Goal) {
			b.WriteString(h + "\n")
		}
	}
	if o.Expect == "sat" {
		b.WriteString("(assert " + o.Goal + ")\n")
	} else if pre, q, ok := hoistForall(o.Goal); ok {
		// goal: guard => (A => (B => forall x. body))   ~~>   refute  guard /\ A /\ B /\ not body[sk]
		extra, g := skolemHint(t.lines[:o.NLines], q)
		for _, e := range extra {
			b.WriteString(e + "\n")
		}
		for _, e := range akHints(t.lines[:o.NLines], append([]string{g}, extra...)) {
			b.WriteString(e + "\n")
		}
		b.WriteString("(assert (not " + implies(o.Guard, pre+g+strings.Repeat(")", strings.Count(pre, "(=> "))) + "))\n")
	} else {
		b.WriteString("(assert (not " + implies(o.Guard, o.Goal) + "))\n")
	}
	b.WriteString("(check-sat)\n")
	// values of parameters for replay
	var names []string
	for n, v := range t.paramVals {
		_ = n
		s := t.sortOf(t.paramTypes[n])
		if s == "Int" || s == "Bool" {
			names = append(names, v.S)
		} else if s == "Slice" {
			names = append(names, app("s.len", v.S), app("s.off", v.S), app("s.cap", v.S), app("s.base", v.S))
		}
	}
	sort.Strings(names)
	if len(names) > 0 {
		b.WriteString("(get-value (" + strings.Join(names, " ") + "))\n")
	}
	return b.String()
}

// ---------- solving ----------

type solverSpec struct {
	name string
	args func(file string, secs int) []string
}

var solverSeed = 0

var solvers = []solverSpec{
	{"z3-new", func(f string, s int) []string {
		return []string{"z3-new", "-smt2", fmt.Sprintf("-T:%d", s), fmt.Sprintf("smt.random_seed=%d", solverSeed), f}
	}},
	{"cvc5", func(f string, s int) []string {
		return []string{"cvc5", "--lang=smt2", fmt.Sprintf("--tlimit=%d", s*1000), fmt.Sprintf("--seed=%d", solverSeed), f}
	}},
	{"z3", func(f string, s int) []string {
		return []string{"z3", "-smt2", fmt.Sprintf("-T:%d", s), fmt.Sprintf("smt.random_seed=%d", solverSeed), f}
	}},
}

func runSolver(sp solverSpec, file string, secs int, ctx context.Context) (verdict string, out string, dur float64) {
	t0 := time.Now()
	a := sp.args(file, secs)
	cctx, cancel := context.WithTimeout(ctx, time.Duration(secs+2)*time.Second)
	defer cancel()
	cmd := exec.CommandContext(cctx, a[0], a[1:]...)
	var buf bytes.Buffer
	cmd.Stdout = &buf
	cmd.Stderr = &buf
	cmd.Run()
	dur = time.Since(t0).Seconds()
	out = buf.String()
	first := strings.TrimSpace(strings.SplitN(out, "\n", 2)[0])
	switch first {
	case "sat", "unsat", "unknown":
		verdict = first
	default:
		if strings.Contains(out, "timeout") || cctx.Err() != nil {
			verdict = "timeout"
		} else {
			verdict = "error"
		}
	}
	return
}

type SolveOpts struct {
	Secs     int
	Agree    bool // thorough: two different solvers must agree on unsat
	OutDir   string
	Parallel int
	Seed     int
	Known    map[string]bool // obligations recorded as known findings (short attempt only)
}

var reValue = regexp.MustCompile(`\(\s*((?:\([^()]*\))|(?:\|[^|]*\|)|[^\s()]+)\s+((?:\(-\s*\d+\))|[^\s()]+)\s*\)`)

func parseModel(out string) map[string]string {
	m := map[string]string{}
	i := strings.Index(out, "\n")
	if i < 0 {
		return m
	}
	for _, mm := range reValue.FindAllStringSubmatch(out[i:], -1) {
		v := strings.ReplaceAll(strings.ReplaceAll(strings.ReplaceAll(mm[2], "(", ""), ")", ""), " ", "")
		m[mm[1]] = v
	}
	return m
}

func solveAll(obls []*Obligation, opt SolveOpts) map[string]*solverStat {
	os.MkdirAll(opt.OutDir, 0o755)
	solverSeed = opt.Seed
	stats := map[string]*solverStat{}
	var mu sync.Mutex
	sem := make(chan struct{}, opt.Parallel)
	var wg sync.WaitGroup
	for _, o := range obls {
		o := o
		wg.Add(1)
		sem <- struct{}{}
		go func() {
			defer wg.Done()
			defer func() { <-sem }()
			solveOne(o, opt, func(s string, d float64, decided bool) {
				mu.Lock()
				st := stats[s]
				if st == nil {
					st = &solverStat{}
					stats[s] = st
				}
				st.Calls++
				st.Secs += d
				if decided {
					st.Decided++
				}
				mu.Unlock()
			})
		}()
	}
	wg.Wait()
	return stats
}

type solverStat struct {
	Calls   int
	Decided int
	Secs    float64
}

func solveOne(o *Obligation, opt SolveOpts, rec func(string, float64, bool)) {
	if o.Expect == "unsat" && (o.Goal == "true") {
		o.Verdict, o.Solver = "unsat", "syntactic"
		return
	}
	file := filepath.Join(opt.OutDir, mangle(strings.ReplaceAll(o.Name, "::", "__"))+".smt2")
	os.WriteFile(file, []byte(o.smt), 0o644)
	o.File = file
	ctx := context.Background()
	want := o.Expect
	// stage 1: z3-new alone with a short budget
	quick := opt.Secs
	if quick > 3 {
		quick = 3
	}
	if want == "sat" && strings.Contains(o.Name, "::cover.") && !strings.HasSuffix(o.Name, "::cover.requires") {
		quick = 1 // call-site vacuity covers: a contradiction shows up at once, a model rarely does
	}
	v, out, d := runSolver(solvers[0], file, quick, ctx)
	rec(solvers[0].name, d, v == "sat" || v == "unsat")
	o.Secs += d
	definitive := func(v string) bool { return v == "sat" || v == "unsat" }
	agreeNeeded := opt.Agree && want == "unsat"
	if definitive(v) && !(agreeNeeded && v == "unsat") {
		o.Verdict, o.Solver, o.Output = v, solvers[0].name, out
		if v == "sat" {
			o.Model = parseModel(out)
		}
		return
	}
	if want == "sat" {
		// vacuity covers: satisfiability with quantified axioms in scope is often "unknown"; one cheap attempt is enough
		// (an unsat answer - contradictory assumptions - is what matters and comes back quickly)
		o.Verdict, o.Solver, o.Output = v, solvers[0].name, out
		if v != "unsat" && v != "sat" {
			o.Verdict = "unknown"
		}
		return
	}
	if opt.Known[o.Name] {
		// a recorded known finding: it is reported as such whatever the solvers say within the full budget; the short
		// attempt above is enough to notice if it starts to hold (then the entry is stale, which the report says)
		o.Verdict, o.Solver, o.Output = "unknown", solvers[0].name, out
		return
	}
	first := v
	firstOut := out
	// stage 2: race all three with the full budget
	type res struct {
		s   string
		v   string
		out string
		d   float64
	}
	ch := make(chan res, len(solvers))
	cctx, cancel := context.WithCancel(ctx)
	defer cancel()
	n := 0
	for i, sp := range solvers {
		if i == 0 && definitive(first) {
			continue // already have z3-new's verdict
		}
		n++
		sp := sp
		go func() {
			v, out, d := runSolver(sp, file, opt.Secs, cctx)
			ch <- res{sp.name, v, out, d}
		}()
	}
	var got []res
	if definitive(first) {
		got = append(got, res{solvers[0].name, first, firstOut, 0})
	}
	for i := 0; i < n; i++ {
		r := <-ch
		rec(r.s, r.d, definitive(r.v))
		o.Secs += r.d
		if definitive(r.v) {
			got = append(got, r)
			if !agreeNeeded || r.v == "sat" {
				break
			}
			// need two agreeing unsat
			cnt := 0
			for _, g := range got {
				if g.v == "unsat" {
					cnt++
				}
			}
			if cnt >= 2 {
				break
			}
		} else if o.Output == "" {
			o.Output = r.s + ": " + r.v + "\n" + r.out
		}
	}
	cancel()
	if len(got) == 0 {
		o.Verdict = "unknown"
		if o.Output == "" {
			o.Output = firstOut
		}
		return
	}
	// disagreement?
	for _, g := range got {
		if g.v != got[0].v {
			o.Verdict = "disagree"
			o.Output = fmt.Sprintf("%s says %s, %s says %s", got[0].s, got[0].v, g.s, g.v)
			return
		}
	}
	if agreeNeeded && got[0].v == "unsat" && len(got) < 2 {
		o.Verdict = "unsat"
		o.Solver = got[0].s + " (no second solver agreed within budget)"
		o.Output = got[0].out
		o.single = true
		return
	}
	o.Verdict, o.Output = got[0].v, got[0].out
	var ns []string
	for _, g := range got {
		ns = append(ns, g.s)
	}
	o.Solver = strings.Join(ns, "+")
	if o.Verdict == "sat" {
		o.Model = parseModel(got[0].out)
	}
}
