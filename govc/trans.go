package main

import (
	"fmt"
	"go/constant"
	"go/token"
	"go/types"
	"math/big"
	"regexp"
	"sort"
	"strings"
	"sync"

	"golang.org/x/tools/go/ssa"
)

// ---------- values ----------

type Ptr struct {
	Kind string // field cell elem arrelem global lockfield
	Comp string // heap component
	Ref  string // object ref (field/cell), array base (elem)
	Idx  string // elem / arrelem index
	In   *Ptr   // arrelem: pointer to the array-valued location
	T    types.Type
}

type Val struct {
	S       string // SMT term
	P       *Ptr   // static pointer description (pointer-typed values)
	Tup     []Val
	Fn      *ssa.Function // function value (static)
	Bnd     []Val         // closure bindings
	Nm      string        // callback parameter name, when the value is a func-typed parameter
	Box     string        // interface values: the term that was boxed, when statically known
	BoxSort string        // SMT sort of Box
}

type State struct {
	H    map[string]string // component -> current term
	Held map[string]int    // static lock knowledge: "comp|ref" -> 0 free, 1 read, 2 write, -1 unknown
	// Gen: which version a component that is not in H denotes: "" the entry version; otherwise the generation
	// created by the last total havoc on this path (unknown call, `modifies everything`, loop with an unknown
	// write set) - a component that is first mentioned after such a havoc is NOT its entry value
	Gen string
}

// genMerge: a generation that is the join of several generations (control-flow join, guarded execution)
type genMerge struct {
	conds []string
	gens  []string
}

func (s *State) clone() *State {
	n := &State{H: make(map[string]string, len(s.H)), Held: make(map[string]int, len(s.Held)), Gen: s.Gen}
	for k, v := range s.H {
		n.H[k] = v
	}
	for k, v := range s.Held {
		n.Held[k] = v
	}
	return n
}

type Obligation struct {
	Name   string
	Kind   string
	NLines int
	Guard  string
	Goal   string
	Pos    token.Position
	Expect string // "unsat" (proof obligation) or "sat" (cover)
	Fn     string
	Note   string
	Hyp    bool // not part of the claim (kind filter) but a hypothesis of claimed obligations
	// results
	Verdict string
	Solver  string
	Secs    float64
	Model   map[string]string
	Output  string
	File    string
	smt     string
	single  bool
}

type loopInfo struct {
	head    *ssa.BasicBlock
	body    map[*ssa.BasicBlock]bool
	ordinal int
	writes  map[string]bool
	all     bool
	// per component: the loop-invariant SSA values (slices / object pointers) through which all
	// writes to it go; nil entry = some write is not of that simple form
	via     map[string][]ssa.Value
	viaBad  map[string]bool
	viaExpr map[string][]viaExpr // written at a location given by a spec path expression over loop-invariant arguments
}

type viaExpr struct {
	e      *Expr
	args   map[string]ssa.Value
	ptypes map[string]types.Type
	pkg    *types.Package
	kind   string // "map" | "elems" | "field"
}

type FnTrans struct {
	eng   *Engine
	fn    *ssa.Function
	ct    *Contract
	key   string
	inst  string
	subst map[string]types.Type

	lines             []string
	dtDecl            []string
	dtSeen            map[string]bool
	declared          map[string]bool
	compSort          map[string]string
	obls              []*Obligation
	vals              map[ssa.Value]Val
	entry             *State
	cur               *State
	guard             string // current reach condition
	blkOut            map[*ssa.BasicBlock]*State
	reach             map[*ssa.BasicBlock]string
	edgeC             map[[2]int]string
	loops             map[*ssa.BasicBlock]*loopInfo
	curLoops          []*loopInfo
	nfresh            int
	counters          map[string]int
	abstr             map[string]bool
	trusted           map[string]bool
	defers            []deferRec
	locals            map[string][]localDef
	failed            error
	strs              map[string]string
	typeIDs           map[string]int
	held              []string
	retCount          int
	paramVals         map[string]Val
	paramTypes        map[string]types.Type
	recvName          string
	resNames          []string
	resTypes          []types.Type
	ghostAtReturn     []*Clause
	curInstr          ssa.Instruction
	loopPre           map[*ssa.BasicBlock]*State
	noGuardCheck      bool
	slicedArrays      []slicedArr
	havocAll          bool
	lastCall          *ssa.CallCommon // the call whose ghost positions are being executed
	genCount          int
	callArgRefs       []string // reference-typed arguments of the call being applied (for debts-change callees)
	panicCount        int
	genMerges         map[string]genMerge
	useBytes          bool
	sentinels         map[string]string
	ranges            map[*ssa.Range]*rangeState
	ghostDone         map[*ssa.Return]bool
	earlyRes          map[ssa.Value]string
	compT             map[string]types.Type
	gaddr             map[string]string
	mayHavePublished  bool
	tfBound           string
	staticArgs        map[string]ssa.Value
	viaCalls          bool
	viaNoted          map[string]bool
	inRequires        bool
	heldAtEntry       map[string][]string // lock component -> refs that the contract requires to be held at entry
	entryLocksDone    bool
	autoInv           map[*ssa.BasicBlock][3]string
	autoPhi           map[*ssa.BasicBlock]*ssa.Phi
	ptrTerms          []ptrTerm
	ghostHit          map[*Clause]bool
	siteOrd           map[ssa.Instruction]int
	recordGets        map[string]bool
	lastCallRes       ssa.Value
	singleAssignCache map[*ssa.Alloc]*ssa.Store
	stableFV          map[*ssa.FreeVar]bool
	rangeDepth        int
	lastSelIdx        string
	privCells         []*Ptr
	cbresCache        map[string]string
	collectUnlocked   *[]string // while evaluating a callee's requires: lock components it needs unlocked (it acquires them)
	tpEvents          []tpEvent
	deferSite         ssa.Instruction
}

// tpEvent: an acquire / release of a lock component at an instruction (two-phase check).
type tpEvent struct {
	at       ssa.Instruction
	comp     string
	acq, rel bool
}

type ptrTerm struct {
	name string
	line int // declared before this line index
}

type deferRec struct {
	call  *ssa.Defer
	guard string
}

type localDef struct {
	v   ssa.Value
	blk *ssa.BasicBlock
	pos token.Pos
	idx int // instruction index inside blk
}

func (t *FnTrans) fail(format string, a ...any) {
	if t.failed == nil {
		t.failed = fmt.Errorf(format, a...)
	}
	panic(transAbort{})
}

type transAbort struct{}

func (t *FnTrans) fresh(hint string) string {
	t.nfresh++
	return q(fmt.Sprintf("%s!%d", hint, t.nfresh))
}

func (t *FnTrans) emit(l string) { t.lines = append(t.lines, l) }

func (t *FnTrans) declare(name, sort string) {
	if t.declared[name] {
		return
	}
	t.declared[name] = true
	t.emit(fmt.Sprintf("(declare-fun %s () %s)", name, sort))
}

func (t *FnTrans) declareFun(name string, args []string, ret string) {
	if t.declared[name] {
		return
	}
	t.declared[name] = true
	t.emit(fmt.Sprintf("(declare-fun %s (%s) %s)", name, strings.Join(args, " "), ret))
}

// assume adds a fact under the current reach condition.
func (t *FnTrans) assume(f string) {
	if f == "true" {
		return
	}
	// quantified conjuncts become hypotheses of their own, so that their instances are quantifier free
	if strings.Contains(f, "(forall ") {
		if parts := splitAnd(f); len(parts) > 1 && len(parts) <= 40 {
			for _, p := range parts {
				t.assume(p)
			}
			return
		}
	}
	t.emit("(assert " + implies(t.guard, f) + ")")
}

func (t *FnTrans) define(name, sort, term string) {
	t.declare(name, sort)
	t.emit("(assert (= " + name + " " + term + "))")
}

func (t *FnTrans) newConst(hint, sort string) string {
	n := t.fresh(hint)
	t.declare(n, sort)
	return n
}

func (t *FnTrans) count(kind string) int {
	t.counters[kind]++
	return t.counters[kind]
}

// oblige records a proof obligation at the current point and then assumes it.
func (t *FnTrans) oblige(kind, goal string, note string) {
	n := t.count(kind)
	t.obligeNamed(fmt.Sprintf("%s.%d", kind, n), kind, goal, note)
}

// splitAnd returns the conjuncts of a top-level (and ...) term.
func splitAnd(s string) []string {
	if !strings.HasPrefix(s, "(and ") || !balanced(s[1:len(s)-1]) {
		return []string{s}
	}
	body := s[5 : len(s)-1]
	var out []string
	depth, start := 0, 0
	inq := false
	for i, c := range body {
		switch {
		case c == '|':
			inq = !inq
		case inq:
		case c == '(':
			depth++
		case c == ')':
			depth--
		case c == ' ' && depth == 0:
			if i > start {
				out = append(out, body[start:i])
			}
			start = i + 1
		}
	}
	if start < len(body) {
		out = append(out, body[start:])
	}
	var flat []string
	for _, o := range out {
		flat = append(flat, splitAnd(o)...)
	}
	return flat
}

func (t *FnTrans) obligeNamed(name, kind, goal, note string) {
	if t.ct != nil && t.ct.Opts["only-ghost-asserts"] != "" && kind != "gassert" && !strings.HasPrefix(kind, "inv") &&
		!(t.ct.Opts["check-bounds"] != "" && (kind == "idx" || kind == "slice" || kind == "make" || kind == "alloc")) {
		// the function is checked for its ghost assertions (an order / protocol statement) only: everything else -
		// memory safety, lock discipline, frames - is abstracted: neither demanded nor assumed
		t.abstr["only the ghost assertions are checked: "+kind+" obligations are not generated"] = true
		return
	}
	if parts := splitAnd(goal); len(parts) > 1 && len(parts) <= 40 {
		// one obligation per conjunct (each may use the earlier ones): smaller queries, sharper reports
		for i, p := range parts {
			t.obligeNamed(fmt.Sprintf("%s/%d", name, i+1), kind, p, note)
		}
		return
	}
	o := &Obligation{Name: t.oblPrefix() + "::" + name, Kind: kind, NLines: len(t.lines), Guard: t.guard, Goal: goal, Expect: "unsat", Fn: t.oblPrefix(), Note: note}
	if t.curInstr != nil {
		o.Pos = t.eng.prog.Fset.Position(t.curInstr.Pos())
	}
	t.obls = append(t.obls, o)
	if kind == "post" || kind == "frame" || kind == "owed.exit" {
		return // nothing follows a return on this path: assuming the goal would only add noise to later VCs
	}
	if isKnownFindingObligation(o.Name) {
		// an obligation recorded as a known finding fails on the current tree: assuming it would make everything behind
		// it on the path vacuous (and hide other violations there); the path continues without the fact
		t.abstr["known finding "+o.Name+": the failing assertion is not assumed on the rest of the path"] = true
		return
	}
	t.assume(goal)
}

var knownFindingObls []string
var knownFindingOnce sync.Once

func isKnownFindingObligation(name string) bool {
	knownFindingOnce.Do(func() {
		for _, k := range loadKnown() {
			knownFindingObls = append(knownFindingObls, k.Obl)
		}
	})
	for _, g := range knownFindingObls {
		if globMatch(g, name) {
			return true
		}
	}
	return false
}

func (t *FnTrans) cover(name, cond string) {
	o := &Obligation{Name: t.oblPrefix() + "::cover." + name, Kind: "cover", NLines: len(t.lines), Guard: "true", Goal: and(t.guard, cond), Expect: "sat", Fn: t.oblPrefix()}
	t.obls = append(t.obls, o)
}

func (t *FnTrans) oblPrefix() string {
	k := t.key
	if i := strings.LastIndex(k, "/"); i >= 0 {
		k = k[i+1:]
	}
	if t.inst != "" {
		k += "[" + t.inst + "]"
	}
	return k
}

// ---------- types & sorts ----------

func (t *FnTrans) resolve(T types.Type) types.Type {
	T = types.Unalias(T)
	switch x := T.(type) {
	case *types.TypeParam:
		if r, ok := t.subst[x.Obj().Name()]; ok {
			return r
		}
		return T
	case *types.Named:
		if x.TypeArgs() != nil && x.TypeArgs().Len() > 0 {
			// instantiate origin with resolved args when any arg is a type param
			changed := false
			var args []types.Type
			for i := 0; i < x.TypeArgs().Len(); i++ {
				a := x.TypeArgs().At(i)
				r := t.resolve(a)
				if r != a {
					changed = true
				}
				args = append(args, r)
			}
			if changed {
				if inst, err := types.Instantiate(nil, x.Origin(), args, false); err == nil {
					return inst
				}
			}
		}
		return T
	case *types.Pointer:
		e := t.resolve(x.Elem())
		if e != x.Elem() {
			return types.NewPointer(e)
		}
	case *types.Slice:
		e := t.resolve(x.Elem())
		if e != x.Elem() {
			return types.NewSlice(e)
		}
	}
	return T
}

// ghostSort: sort of a ghost field of (an instantiation of) a generic type: occurrences of the type's
// parameters in the declared sort (as K or U_K) denote the sort of the actual type argument.
func (t *FnTrans) ghostSort(raw string, T types.Type) string {
	n, ok := derefNamed(t.resolve(T))
	if !ok || n.TypeArgs() == nil || n.TypeArgs().Len() == 0 {
		return raw
	}
	tps := n.Origin().TypeParams()
	out := raw
	for i := 0; i < tps.Len() && i < n.TypeArgs().Len(); i++ {
		name := tps.At(i).Obj().Name()
		actual := t.sortOf(n.TypeArgs().At(i))
		re := regexp.MustCompile(`(^|[ ()])(?:U_)?` + regexp.QuoteMeta(name) + `($|[ ()])`)
		for k := 0; k < 3; k++ {
			out = re.ReplaceAllString(out, "${1}"+actual+"${2}")
		}
	}
	return out
}

// typeParam: a type parameter of the function (or of its receiver type) by name.
func (t *FnTrans) typeParam(name string) types.Type {
	if tps := t.fn.TypeParams(); tps != nil {
		for i := 0; i < tps.Len(); i++ {
			if tps.At(i).Obj().Name() == name {
				return t.resolve(tps.At(i))
			}
		}
	}
	fn := t.fn
	for fn.Parent() != nil {
		fn = fn.Parent()
	}
	if recv := fn.Signature.Recv(); recv != nil {
		if n, ok := derefNamed(recv.Type()); ok && n.TypeArgs() != nil {
			for i := 0; i < n.TypeArgs().Len(); i++ {
				if tp, ok := n.TypeArgs().At(i).(*types.TypeParam); ok && tp.Obj().Name() == name {
					return t.resolve(tp)
				}
			}
		}
	}
	return nil
}

func typeName(T types.Type) string {
	switch x := T.(type) {
	case *types.Named:
		o := x.Obj()
		if o.Pkg() != nil {
			return o.Pkg().Path() + "." + o.Name()
		}
		return o.Name()
	case *types.Pointer:
		return typeName(x.Elem())
	case *types.Alias:
		return typeName(types.Unalias(x))
	}
	return T.String()
}

func shortTypeName(T types.Type) string {
	n := typeName(T)
	if i := strings.LastIndex(n, "/"); i >= 0 {
		n = n[i+1:]
	}
	return n
}

func (t *FnTrans) sortOf(T types.Type) string {
	T = t.resolve(T)
	switch x := T.Underlying().(type) {
	case *types.Basic:
		switch {
		case x.Info()&types.IsBoolean != 0:
			return "Bool"
		case x.Info()&types.IsInteger != 0:
			return "Int"
		case x.Info()&types.IsString != 0:
			return "Str"
		case x.Info()&types.IsFloat != 0, x.Info()&types.IsComplex != 0:
			return "Float"
		case x.Kind() == types.UnsafePointer, x.Kind() == types.UntypedNil:
			return "Int"
		}
	case *types.Pointer, *types.Map, *types.Chan, *types.Signature, *types.Interface:
		if _, ok := T.(*types.TypeParam); ok {
			return t.usort(T.(*types.TypeParam).Obj().Name())
		}
		return "Int"
	case *types.Slice:
		return "Slice"
	case *types.Array:
		return "(Array Int " + t.sortOf(x.Elem()) + ")"
	case *types.Struct:
		return t.structSort(T, x)
	case *types.Tuple:
		return "Tuple"
	}
	if tp, ok := T.(*types.TypeParam); ok {
		return t.usort(tp.Obj().Name())
	}
	t.fail("sortOf: unsupported type %s", T)
	return ""
}

func (t *FnTrans) usort(name string) string {
	s := "U_" + name
	if !t.dtSeen[s] {
		t.dtSeen[s] = true
		t.dtDecl = append(t.dtDecl, fmt.Sprintf("(declare-sort %s 0)", s), fmt.Sprintf("(declare-fun zero_%s () %s)", s, s))
	}
	return s
}

func (t *FnTrans) structSort(T types.Type, st *types.Struct) string {
	name := "S_" + mangle(shortTypeName(T))
	if _, ok := T.(*types.Named); !ok {
		name = "S_anon_" + mangle(st.String())
	}
	if st.NumFields() == 0 {
		name = "S_empty"
	}
	if t.dtSeen[name] {
		return name
	}
	t.dtSeen[name] = true
	var fs []string
	for i := 0; i < st.NumFields(); i++ {
		fs = append(fs, fmt.Sprintf("(%s %s)", q(name+"."+fieldAcc(st, i)), t.sortOf(st.Field(i).Type())))
	}
	if len(fs) == 0 {
		t.dtDecl = append(t.dtDecl, fmt.Sprintf("(declare-datatypes ((%s 0)) (((mk_%s))))", name, name))
	} else {
		t.dtDecl = append(t.dtDecl, fmt.Sprintf("(declare-datatypes ((%s 0)) (((mk_%s %s))))", name, name, strings.Join(fs, " ")))
	}
	return name
}

// fieldAcc: accessor name of field i (blank fields are numbered)
func fieldAcc(st *types.Struct, i int) string {
	n := st.Field(i).Name()
	if n == "_" {
		return fmt.Sprintf("_%d", i)
	}
	return n
}

func (t *FnTrans) zero(T types.Type) string {
	T = t.resolve(T)
	s := t.sortOf(T)
	switch s {
	case "Int":
		return "0"
	case "Bool":
		return "false"
	case "Str":
		return "str_empty"
	case "Float":
		return "fzero"
	case "Slice":
		return "(mk-slice 0 0 0 0)"
	}
	switch x := T.Underlying().(type) {
	case *types.Array:
		return fmt.Sprintf("((as const %s) %s)", s, t.zero(x.Elem()))
	case *types.Struct:
		if x.NumFields() == 0 {
			return "mk_" + s
		}
		var fs []string
		for i := 0; i < x.NumFields(); i++ {
			fs = append(fs, t.zero(x.Field(i).Type()))
		}
		return app("mk_"+s, fs...)
	}
	if strings.HasPrefix(s, "U_") {
		return "zero_" + s
	}
	t.fail("zero: unsupported type %s", T)
	return ""
}

// rangeFact returns the well-formedness fact for a value of Go type T.
func (t *FnTrans) rangeFact(x string, T types.Type) string {
	T = t.resolve(T)
	if ii, ok := intInfoOf(T); ok {
		return ii.inRange(x)
	}
	switch T.Underlying().(type) {
	case *types.Slice:
		return and(app("wf-slice", x), app("<", app("s.base", x), t.get("$alloc")))
	case *types.Interface:
		return "true" // interface values are canonical encodings, not references
	case *types.Pointer:
		if _, ok := T.(*types.TypeParam); ok {
			return "true"
		}
		// object references are in [0, $alloc); addresses of embedded fields (addrTerm) are negative
		return app("<", x, t.get("$alloc"))
	case *types.Map, *types.Chan, *types.Signature:
		if _, ok := T.(*types.TypeParam); ok {
			return "true"
		}
		return and(app("<=", "0", x), app("<", x, t.get("$alloc")))
	case *types.Basic:
		if t.sortOf(T) == "Str" {
			return "true"
		}
	case *types.Struct:
		// a struct value: the facts of its fields (references it holds denote allocated objects)
		st := T.Underlying().(*types.Struct)
		if st.NumFields() == 0 || t.rangeDepth > 2 {
			return "true"
		}
		t.rangeDepth++
		defer func() { t.rangeDepth-- }()
		sn := t.structSort(T, st)
		var fs []string
		for i := 0; i < st.NumFields(); i++ {
			if f := t.rangeFact(app(q(sn+"."+fieldAcc(st, i)), x), st.Field(i).Type()); f != "true" {
				fs = append(fs, f)
			}
		}
		if len(fs) == 0 {
			return "true"
		}
		return and(fs...)
	}
	return "true"
}

// ---------- heap components ----------

func (t *FnTrans) get(comp string) string {
	if t.recordGets != nil {
		t.recordGets[comp] = true
	}
	if v, ok := t.cur.H[comp]; ok {
		return v
	}
	s, ok := t.compSort[comp]
	if !ok {
		t.fail("component %s has no sort", comp)
	}
	if t.cur.Gen != "" {
		// first reference on this path, after everything has been havocked: the version of that havoc
		t.cur.H[comp] = t.genVersion(comp, t.cur.Gen)
		return t.cur.H[comp]
	}
	// first reference anywhere: entry version
	n := q(comp + "@0")
	if !t.declared[n] {
		t.declare(n, s)
		t.typedFresh(comp, n)
		if strings.HasPrefix(comp, "TD.") {
			t.emit(fmt.Sprintf("(assert (forall ((td$r Int)) (! (>= (select %s td$r) 0) :pattern ((select %s td$r)))))", n, n))
		}
		if strings.HasPrefix(comp, "L.") && t.entryLocksDone {
			t.entryLockAxiom(comp, n)
		}
	}
	if _, ok := t.entry.H[comp]; !ok {
		t.entry.H[comp] = n
	}
	// a component first seen inside a loop body must have been in the loop's write set
	// (otherwise it is unchanged since entry and the entry version is right)
	t.cur.H[comp] = t.entryOr(comp)
	return t.cur.H[comp]
}

func (t *FnTrans) entryOr(comp string) string { return t.entry.H[comp] }

// newGen: a new havoc generation; every component not yet mentioned on the current path denotes an unknown value
func (t *FnTrans) newGen() string {
	t.genCount++
	return fmt.Sprintf("@G%d", t.genCount)
}

// havocRest: everything that has not been mentioned so far is havocked as well (called after a total havoc of the
// known components)
func (t *FnTrans) havocRest() {
	t.cur.Gen = t.newGen()
}

// genVersion: the term component c denotes in generation gen
func (t *FnTrans) genVersion(c, gen string) string {
	if gen == "" || strings.HasPrefix(c, "L.") || strings.HasPrefix(c, "GL.") {
		// lock state of the current goroutine is not changed by callees (balanced locking assumed for unknown code)
		return t.entryVersion(c)
	}
	s, ok := t.compSort[c]
	if !ok {
		t.fail("component %s has no sort", c)
	}
	n := q(c + gen)
	if t.declared[n] {
		return n
	}
	if m, ok := t.genMerges[gen]; ok {
		var terms []string
		same := true
		for _, g := range m.gens {
			v := t.genVersion(c, g)
			terms = append(terms, v)
			if v != terms[0] {
				same = false
			}
		}
		if same {
			return terms[0]
		}
		mt := terms[len(terms)-1]
		for i := len(terms) - 2; i >= 0; i-- {
			mt = ite(m.conds[i], terms[i], mt)
		}
		t.define(n, s, mt)
		return n
	}
	t.declare(n, s)
	if c == "$alloc" {
		t.emit("(assert (>= " + n + " " + q("$alloc@0") + "))")
		return n
	}
	if a, ok := t.cur.H["$alloc"]; ok {
		t.tfBound = a
	}
	t.typedFresh(c, n)
	t.tfBound = ""
	if strings.HasPrefix(c, "TD.") {
		t.emit(fmt.Sprintf("(assert (forall ((td$r Int)) (! (>= (select %s td$r) 0) :pattern ((select %s td$r)))))", n, n))
	}
	return n
}

// mergeGen: the generation at a join of paths with generations gens (conds[i] selects gens[i]; the last is the default)
func (t *FnTrans) mergeGen(conds, gens []string) string {
	same := true
	for _, g := range gens {
		if g != gens[0] {
			same = false
		}
	}
	if same {
		return gens[0]
	}
	g := t.newGen()
	if t.genMerges == nil {
		t.genMerges = map[string]genMerge{}
	}
	t.genMerges[g] = genMerge{conds: append([]string{}, conds...), gens: append([]string{}, gens...)}
	return g
}

func (t *FnTrans) set(comp, term string) {
	for _, l := range t.curLoops {
		if !l.all && !l.writes[comp] {
			t.fail("internal: loop %d write-set misses component %s", l.ordinal, comp)
		}
	}
	t.cur.H[comp] = term
}

var reUSort = regexp.MustCompile(`U_[A-Za-z0-9]+`)

func (t *FnTrans) comp(name, sort string) string {
	for _, u := range reUSort.FindAllString(sort, -1) {
		t.usort(u[2:])
	}
	if s, ok := t.compSort[name]; ok {
		if s != sort {
			t.fail("component %s used at sorts %s and %s", name, s, sort)
		}
	} else {
		t.compSort[name] = sort
	}
	return name
}

// field component for struct type ST (named or not) and field index
func (t *FnTrans) fieldComp(ST types.Type, prefix string, i int) (string, types.Type) {
	ST = t.resolve(ST)
	st := ST.Underlying().(*types.Struct)
	f := st.Field(i)
	var name string
	if prefix != "" {
		name = prefix + "." + f.Name()
	} else {
		name = "H." + originName(ST) + "." + f.Name()
	}
	return name, f.Type()
}

func originName(T types.Type) string {
	if n, ok := T.(*types.Named); ok {
		return shortTypeName(n.Origin())
	}
	return mangle(T.String())
}

// ---------- pointers ----------

func (t *FnTrans) isStruct(T types.Type) (*types.Struct, bool) {
	st, ok := t.resolve(T).Underlying().(*types.Struct)
	return st, ok
}

// load reads the value stored at pointer p (of static pointee type T).
func (t *FnTrans) load(p *Ptr) string {
	T := p.T
	if st, ok := t.isStruct(T); ok && (p.Kind == "field" || p.Kind == "obj") {
		// struct value assembled from its field components
		s := t.sortOf(T)
		if st.NumFields() == 0 {
			return "mk_" + s
		}
		var fs []string
		for i := 0; i < st.NumFields(); i++ {
			fs = append(fs, t.load(t.fieldPtr(p, i)))
		}
		return app("mk_"+s, fs...)
	}
	t.noteCompType(p, T)
	switch p.Kind {
	case "field", "cell":
		t.comp(p.Comp, "(Array Int "+t.sortOf(T)+")")
		return app("select", t.get(p.Comp), p.Ref)
	case "global":
		t.comp(p.Comp, t.sortOf(T))
		return t.get(p.Comp)
	case "elem":
		t.comp(p.Comp, "(Array Int (Array Int "+t.sortOf(T)+"))")
		return app("select", app("select", t.get(p.Comp), p.Ref), p.Idx)
	case "arrelem":
		return app("select", t.load(p.In), p.Idx)
	case "elemrow":
		at := t.resolve(T).Underlying().(*types.Array)
		t.comp(p.Comp, "(Array Int (Array Int "+t.sortOf(at.Elem())+"))")
		return app("select", t.get(p.Comp), p.Ref)
	}
	t.fail("load: bad pointer kind %s", p.Kind)
	return ""
}

func (t *FnTrans) store(p *Ptr, v string) {
	T := p.T
	if st, ok := t.isStruct(T); ok && (p.Kind == "field" || p.Kind == "obj") {
		s := t.sortOf(T)
		for i := 0; i < st.NumFields(); i++ {
			t.store(t.fieldPtr(p, i), app(q(s+"."+fieldAcc(st, i)), v))
		}
		return
	}
	t.noteCompType(p, T)
	switch p.Kind {
	case "field", "cell":
		t.comp(p.Comp, "(Array Int "+t.sortOf(T)+")")
		t.checkGuardedWrite(p)
		t.set(p.Comp, app("store", t.get(p.Comp), p.Ref, v))
	case "global":
		t.comp(p.Comp, t.sortOf(T))
		t.set(p.Comp, v)
	case "elem":
		t.comp(p.Comp, "(Array Int (Array Int "+t.sortOf(T)+"))")
		h := t.get(p.Comp)
		t.set(p.Comp, app("store", h, p.Ref, app("store", app("select", h, p.Ref), p.Idx, v)))
	case "arrelem":
		t.store(p.In, app("store", t.load(p.In), p.Idx, v))
	case "elemrow":
		at := t.resolve(T).Underlying().(*types.Array)
		t.comp(p.Comp, "(Array Int (Array Int "+t.sortOf(at.Elem())+"))")
		t.set(p.Comp, app("store", t.get(p.Comp), p.Ref, v))
	default:
		t.fail("store: bad pointer kind %s", p.Kind)
	}
}

func (t *FnTrans) noteCompType(p *Ptr, T types.Type) {
	if p.Comp == "" {
		return
	}
	if _, ok := t.compT[p.Comp]; ok {
		return
	}
	switch p.Kind {
	case "field", "cell", "global", "elem":
		t.compT[p.Comp] = t.resolve(T)
	case "elemrow":
		if at, ok := t.resolve(T).Underlying().(*types.Array); ok {
			t.compT[p.Comp] = t.resolve(at.Elem())
		}
	}
}

// typedFresh: facts that every version of a heap component satisfies because of Go's typing
// (integer fields stay in the range of their type, slices are well formed).
func (t *FnTrans) typedFresh(comp, term string) {
	T, ok := t.compT[comp]
	if !ok {
		return
	}
	s := t.compSort[comp]
	bound := q("$alloc@0")
	if t.tfBound != "" {
		bound = t.tfBound
	}
	body := func(x string) string {
		if _, ok := intInfoOf(T); ok {
			// integer ranges are supplied as ground facts at each load (quantified range axioms made
			// unrelated quantified obligations unstable)
			return ""
		}
		switch T.Underlying().(type) {
		case *types.Slice:
			return and(app("wf-slice", x), app("<", app("s.base", x), bound))
		case *types.Pointer:
			// closed heap: stored references denote allocated objects (addresses of embedded fields are negative)
			return app("<", x, bound)
		case *types.Map, *types.Chan, *types.Signature:
			return and(app("<=", "0", x), app("<", x, bound))
		case *types.Basic:
			if b := T.Underlying().(*types.Basic); b.Kind() == types.UnsafePointer {
				return app("<", x, bound) // atomic.Pointer cells: references to allocated objects (interior addresses are negative)
			}
		}
		return ""
	}
	switch {
	case strings.HasPrefix(comp, "M.") && strings.HasSuffix(comp, ".val"):
		// map values: (Array Int (Array K V)); closed heap for reference-typed values
		ks := s[len("(Array Int (Array "):]
		ks = ks[:balancedTermEnd(ks)]
		x := app("select", app("select", term, "tf$r"), "tf$k")
		if b := body(x); b != "" {
			t.emit(fmt.Sprintf("(assert (forall ((tf$r Int) (tf$k %s)) (! %s :pattern (%s))))", ks, b, x))
		}
	case strings.HasPrefix(comp, "M."):
	case strings.HasPrefix(s, "(Array Int (Array Int "):
		x := app("select", app("select", term, "tf$r"), "tf$i")
		if b := body(x); b != "" {
			t.emit(fmt.Sprintf("(assert (forall ((tf$r Int) (tf$i Int)) (! %s :pattern (%s))))", b, x))
		}
	case strings.HasPrefix(s, "(Array Int "):
		x := app("select", term, "tf$r")
		if b := body(x); b != "" {
			t.emit(fmt.Sprintf("(assert (forall ((tf$r Int)) (! %s :pattern (%s))))", b, x))
		}
	default:
		if b := body(term); b != "" {
			t.emit("(assert " + b + ")")
		}
	}
}

// balancedTermEnd: length of the first s-expression (or atom) of s.
func balancedTermEnd(s string) int { return balancedTerm(s, 0) }

// freshVersion declares a new unconstrained version of a component.
func (t *FnTrans) freshVersion(comp, hint string) string {
	n := t.newConst(comp+hint, t.compSort[comp])
	if a, ok := t.cur.H["$alloc"]; ok && comp != "$alloc" {
		t.tfBound = a
	}
	t.typedFresh(comp, n)
	t.tfBound = ""
	return n
}

// entryLockAxiom: a function is entered holding no monitor lock except those its contract requires
// (requires held(x.mu) / rheld(x.mu)).
func (t *FnTrans) entryLockAxiom(comp, entryTerm string) {
	var ex []string
	for _, r := range t.heldAtEntry[comp] {
		ex = append(ex, not(eq("el$r", r)))
	}
	t.emit(fmt.Sprintf("(assert (forall ((el$r Int)) (! %s :pattern ((select %s el$r)))))", implies(and(ex...), eq(app("select", entryTerm, "el$r"), "0")), entryTerm))
}

// fieldPtr: pointer to field i of the struct pointed to by p.
func (t *FnTrans) fieldPtr(p *Ptr, i int) *Ptr {
	var r *Ptr
	switch p.Kind {
	case "obj": // pointer to a heap struct object: ref
		c, ft := t.fieldComp(p.T, "", i)
		r = &Ptr{Kind: "field", Comp: c, Ref: p.Ref, T: ft}
	case "field": // struct embedded by value in another struct
		c, ft := t.fieldComp(p.T, p.Comp, i)
		r = &Ptr{Kind: "field", Comp: c, Ref: p.Ref, T: ft}
	}
	if r != nil {
		// a struct of a named type of the owner's own package embedded by value (e.g. the sentinel `root` of a
		// list) is an object of that type in its own right, living at an interior address: its fields are
		// the ordinary field components of its type, so that &owner.field can be stored, compared and
		// dereferenced like any other pointer to such an object
		if ft, ok := t.resolve(r.T).(*types.Named); ok {
			if _, isS := ft.Underlying().(*types.Struct); isS {
				if on, ok2 := derefNamed(t.resolve(p.T)); ok2 && on.Obj().Pkg() != nil && ft.Obj().Pkg() == on.Obj().Pkg() && strings.HasPrefix(on.Obj().Pkg().Path(), "github.com/iotaledger/hive.go") {
					return &Ptr{Kind: "obj", Ref: t.addrTerm(r), T: r.T}
				}
			}
		}
		return r
	}
	t.fail("fieldPtr on pointer kind %s (type %s)", p.Kind, p.T)
	return nil
}

// ptrOf gives the pointer description of a pointer-typed SSA value.
func (t *FnTrans) ptrOf(v ssa.Value) *Ptr {
	val := t.val(v)
	if val.P != nil {
		return val.P
	}
	pt, ok := t.resolve(v.Type()).Underlying().(*types.Pointer)
	if !ok {
		t.fail("ptrOf: %s is not a pointer (%s)", v.Name(), v.Type())
	}
	return t.ptrFromRef(val.S, pt.Elem())
}

var reAddrTerm = regexp.MustCompile(`^\((\|?)addr\$([^ |]+)\|? (.+)\)$`)

func (t *FnTrans) ptrFromRef(ref string, elem types.Type) *Ptr {
	elem = t.resolve(elem)
	if m := reAddrTerm.FindStringSubmatch(ref); m != nil {
		// a materialised interior pointer: back to the field it denotes
		return &Ptr{Kind: "field", Comp: m[2], Ref: m[3], T: elem}
	}
	if _, ok := elem.Underlying().(*types.Struct); ok {
		return &Ptr{Kind: "obj", Ref: ref, T: elem}
	}
	if at, ok := elem.Underlying().(*types.Array); ok {
		// arrays reached through a pointer live in the element heap (row = the array's address)
		return &Ptr{Kind: "elemrow", Comp: "E." + mangle(t.sortOf(at.Elem())), Ref: ref, T: elem}
	}
	return &Ptr{Kind: "cell", Comp: "C." + mangle(t.sortOf(elem)), Ref: ref, T: elem}
}

// ---------- SSA value lookup ----------

func (t *FnTrans) val(v ssa.Value) Val {
	if x, ok := t.vals[v]; ok {
		return x
	}
	switch c := v.(type) {
	case *ssa.Const:
		return t.constVal(c)
	case *ssa.Global:
		T := c.Type().(*types.Pointer).Elem()
		x := Val{P: t.globalPtr(c.Pkg.Pkg.Path()+"."+c.Name(), T)}
		x.S = x.P.Ref
		t.vals[v] = x
		return x
	case *ssa.Function:
		return Val{Fn: c, S: t.fnRef(c)}
	case *ssa.Builtin:
		return Val{}
	case *ssa.FreeVar:
		t.fail("free variable %s used without closure context", c.Name())
	}
	t.fail("value %s (%T) used before definition", v.Name(), v)
	return Val{}
}

// globalPtr: package-level variables live in the ordinary heap at fixed small addresses, so
// that their addresses can be stored and compared like any other pointer.
func (t *FnTrans) globalPtr(full string, T types.Type) *Ptr {
	a, ok := t.gaddr[full]
	if !ok {
		a = fmt.Sprint(len(t.gaddr) + 1)
		t.gaddr[full] = a
		if len(t.gaddr) > 900 {
			t.fail("too many globals")
		}
	}
	return t.ptrFromRef(a, T)
}

func (t *FnTrans) fnRef(f *ssa.Function) string {
	n := q("fn$" + f.String())
	if !t.declared[n] {
		t.declare(n, "Int")
		t.emit("(assert (> " + n + " 0))") // a declared function is not the nil function value
	}
	return n
}

func (t *FnTrans) constVal(c *ssa.Const) Val {
	T := t.resolve(c.Type())
	if c.Value == nil {
		return Val{S: t.zero(T)}
	}
	switch c.Value.Kind() {
	case constant.Bool:
		if constant.BoolVal(c.Value) {
			return Val{S: "true"}
		}
		return Val{S: "false"}
	case constant.Int:
		if t.sortOf(T) == "Float" {
			return Val{S: t.floatConst(c.Value.ExactString())}
		}
		n, _ := new(big.Int).SetString(c.Value.ExactString(), 10)
		return Val{S: num(n)}
	case constant.String:
		return Val{S: t.strConst(constant.StringVal(c.Value))}
	case constant.Float:
		return Val{S: t.floatConst(c.Value.ExactString())}
	}
	t.fail("unsupported constant %s", c)
	return Val{}
}

func (t *FnTrans) floatConst(s string) string {
	n := q("flt$" + s)
	t.declare(n, "Float")
	return n
}

func (t *FnTrans) strConst(s string) string {
	if s == "" {
		return "str_empty"
	}
	if n, ok := t.strs[s]; ok {
		return n
	}
	n := fmt.Sprintf("str$%d", len(t.strs))
	t.strs[s] = n
	t.declare(n, "Str")
	t.emit(fmt.Sprintf("(assert (= (slen %s) %d))", n, len(s)))
	for o, on := range t.strs {
		if o != s {
			t.emit(fmt.Sprintf("(assert (distinct %s %s))", n, on))
		}
	}
	return n
}

// typeKey: identity of a dynamic type; instantiations of one generic type are not distinguished
// (within one generic function they coincide).
func typeKey(T types.Type) string {
	switch x := T.(type) {
	case *types.Pointer:
		return "*" + typeKey(x.Elem())
	case *types.Named:
		return typeName(x.Origin())
	case *types.Alias:
		return typeKey(types.Unalias(x))
	}
	return T.String()
}

func (t *FnTrans) typeID(T types.Type) string {
	k := typeKey(t.resolve(T))
	id, ok := t.typeIDs[k]
	if !ok {
		id = len(t.typeIDs) + 1
		t.typeIDs[k] = id
	}
	return fmt.Sprint(id)
}

// ---------- loops ----------

func (t *FnTrans) findLoops() {
	t.loops = map[*ssa.BasicBlock]*loopInfo{}
	var heads []*ssa.BasicBlock
	for _, b := range t.fn.Blocks {
		for _, s := range b.Succs {
			if s.Dominates(b) { // back edge b -> s
				l := t.loops[s]
				if l == nil {
					l = &loopInfo{head: s, body: map[*ssa.BasicBlock]bool{s: true}, writes: map[string]bool{}, via: map[string][]ssa.Value{}, viaBad: map[string]bool{}, viaExpr: map[string][]viaExpr{}}
					t.loops[s] = l
					heads = append(heads, s)
				}
				// natural loop: nodes reaching b without passing s
				var stack []*ssa.BasicBlock
				if !l.body[b] {
					l.body[b] = true
					stack = append(stack, b)
				}
				for len(stack) > 0 {
					n := stack[len(stack)-1]
					stack = stack[:len(stack)-1]
					for _, p := range n.Preds {
						if !l.body[p] {
							l.body[p] = true
							stack = append(stack, p)
						}
					}
				}
			}
		}
	}
	// ordinals in source order of the loop header position
	sort.Slice(heads, func(i, j int) bool { return t.loopPos(heads[i]) < t.loopPos(heads[j]) })
	for i, h := range heads {
		t.loops[h].ordinal = i + 1
	}
}

func (t *FnTrans) loopPos(h *ssa.BasicBlock) token.Pos {
	// position of the first instruction with a position in the header or its body
	best := token.Pos(1 << 40)
	for b := range t.loops[h].body {
		for _, in := range b.Instrs {
			if p := in.Pos(); p.IsValid() && p < best {
				best = p
			}
		}
	}
	return best
}

// rpo returns blocks reachable from entry in reverse postorder ignoring back edges.
func (t *FnTrans) rpo() []*ssa.BasicBlock {
	seen := map[*ssa.BasicBlock]bool{}
	var post []*ssa.BasicBlock
	var dfs func(b *ssa.BasicBlock)
	dfs = func(b *ssa.BasicBlock) {
		seen[b] = true
		for _, s := range b.Succs {
			if s.Dominates(b) {
				continue
			}
			if !seen[s] {
				dfs(s)
			}
		}
		post = append(post, b)
	}
	dfs(t.fn.Blocks[0])
	for i, j := 0, len(post)-1; i < j; i, j = i+1, j-1 {
		post[i], post[j] = post[j], post[i]
	}
	return post
}

// ghostCompName: heap component of a ghost field. A ghost field whose declared sort mentions a type parameter
// (U_<name>) is one component per instantiation, since the sort differs.
func ghostCompName(typeName, field, rawSort, resolved string) string {
	c := "H." + typeName + ".$" + field
	if strings.Contains(rawSort, "U_") && rawSort != resolved {
		c += "@" + mangle(resolved)
	}
	return c
}
