package main

import (
	"fmt"
	"go/types"
	"os"
	"sort"
	"strings"

	"golang.org/x/tools/go/ssa"
)

// fnKey: contract key of an SSA function.
func fnKey(f *ssa.Function) string {
	if f.Origin() != nil {
		f = f.Origin()
	}
	if f.Parent() != nil {
		// closure: Outer$N
		name := f.Name()
		if i := strings.LastIndex(name, "$"); i >= 0 {
			return fnKey(f.Parent()) + name[i:]
		}
		return fnKey(f.Parent()) + "$" + name
	}
	pkg := ""
	if f.Pkg != nil {
		pkg = f.Pkg.Pkg.Path()
	} else if f.Object() != nil && f.Object().Pkg() != nil {
		pkg = f.Object().Pkg().Path()
	}
	if recv := f.Signature.Recv(); recv != nil {
		T := recv.Type()
		if p, ok := T.(*types.Pointer); ok {
			T = p.Elem()
		}
		if n, ok := T.(*types.Named); ok {
			if n.Obj().Pkg() != nil {
				pkg = n.Obj().Pkg().Path()
			}
			return pkg + "." + n.Obj().Name() + "." + f.Name()
		}
	}
	return pkg + "." + f.Name()
}

func ifaceKey(recv types.Type, m *types.Func) string {
	if tp, ok := recv.(*types.TypeParam); ok {
		// a method of a type parameter: named after the constraint interface (generalheap.Comparable.CompareTo)
		if n, ok := tp.Constraint().(*types.Named); ok && n.Obj().Pkg() != nil {
			return n.Obj().Pkg().Path() + "." + n.Obj().Name() + "." + m.Name()
		}
	}
	if n, ok := recv.(*types.Named); ok && n.Obj().Pkg() != nil {
		return n.Obj().Pkg().Path() + "." + n.Obj().Name() + "." + m.Name()
	}
	if n, ok := recv.(*types.Named); ok {
		return n.Obj().Name() + "." + m.Name() // error.Error
	}
	if m.Pkg() != nil {
		return m.Pkg().Path() + ".(interface)." + m.Name()
	}
	return "(interface)." + m.Name()
}

// call translates a call instruction (also used for deferred calls).
func (t *FnTrans) call(in ssa.Instruction, c *ssa.CallCommon, res ssa.Value) {
	// builtins
	if b, ok := c.Value.(*ssa.Builtin); ok {
		t.builtin(b, c, res)
		return
	}
	var key string
	var callee *ssa.Function
	var args []Val
	var argTypes []types.Type
	var ct *Contract
	var tsubst map[string]types.Type
	var closureOf Val
	if c.IsInvoke() {
		recvT := t.resolve(c.Value.Type())
		key = ifaceKey(recvT, c.Method)
		recv := t.val(c.Value)
		if t.sortOf(recvT) == "Int" { // (a receiver of an uninstantiated type parameter has an uninterpreted sort: no nil test)
			t.oblige("nil", not(eq(t.termOf(recv, c.Value), "0")), "method call on nil interface")
		}
		args = append(args, recv)
		argTypes = append(argTypes, recvT)
		if n, ok := recvT.(*types.Named); ok && n.TypeArgs() != nil {
			tsubst = map[string]types.Type{}
			for i := 0; i < n.TypeArgs().Len(); i++ {
				tsubst[n.Origin().TypeParams().At(i).Obj().Name()] = t.resolve(n.TypeArgs().At(i))
			}
		}
	} else {
		fv := t.val(c.Value)
		callee = fv.Fn
		if sf, ok := c.Value.(*ssa.Function); ok {
			callee = sf
		}
		closureOf = fv
		if callee != nil {
			key = fnKey(callee)
			if ta := callee.TypeArgs(); len(ta) > 0 {
				tsubst = map[string]types.Type{}
				tps := callee.Origin().TypeParams()
				for i := 0; i < tps.Len() && i < len(ta); i++ {
					tsubst[tps.At(i).Obj().Name()] = t.resolve(ta[i])
				}
			}
			if callee.Signature.Recv() != nil {
				// receiver type args
				RT := callee.Signature.Recv().Type()
				if n, ok := derefNamed(RT); ok && n.TypeArgs() != nil && tsubst == nil {
					tsubst = map[string]types.Type{}
					for i := 0; i < n.TypeArgs().Len(); i++ {
						tsubst[n.Origin().TypeParams().At(i).Obj().Name()] = t.resolve(n.TypeArgs().At(i))
					}
				}
			}
		} else if fv.Nm != "" && t.ct != nil && t.ct.Callback[fv.Nm] != nil {
			ct = t.ct.Callback[fv.Nm]
			key = ct.Key
		} else if strings.HasPrefix(fv.Nm, "field:") {
			full := fv.Nm[len("field:"):]
			i := strings.LastIndex(full, ".")
			if ts := t.eng.specs.Types[full[:i]]; ts != nil && ts.Callbacks[full[i+1:]] != nil {
				ct = ts.Callbacks[full[i+1:]]
				key = ct.Key
			} else {
				key = "<dynamic field " + full + ">"
			}
		} else {
			key = "<dynamic:" + c.Value.Name() + ">"
		}
	}
	for _, a := range c.Args {
		args = append(args, t.val(a))
		argTypes = append(argTypes, t.resolve(a.Type()))
	}
	// ghost statements attached to this call site: "ghost before call <Type.Method|Func>: ..."
	t.lastCall = c
	defer func() { t.lastCall = nil }()
	sk := key
	if i := strings.LastIndex(sk, "/"); i >= 0 {
		sk = sk[i+1:]
	}
	if i := strings.Index(sk, "."); i >= 0 {
		sk = sk[i+1:]
	}
	// intrinsics (locks, atomics): same ghost positions around them
	if strings.HasPrefix(key, "sync/atomic.") {
		t.ghostAt("before call " + sk)
		if t.intrinsic(key, c, args, res) {
			t.lastCallRes = res
			t.ghostAt("after call " + sk)
			t.lastCallRes = nil
			return
		}
	} else if t.intrinsic(key, c, args, res) {
		return
	}
	t.ghostAt("before call " + sk)
	defer func() {
		t.lastCallRes = res
		t.ghostAt("after call " + sk)
		t.lastCallRes = nil
	}()
	for _, a := range c.Args {
		if t.sortOf(a.Type()) == "Int" {
			if _, isInt := intInfoOf(t.resolve(a.Type())); !isInt {
				t.mayHavePublished = true // a reference escapes into the callee
			}
		}
	}
	if ct == nil {
		if ct = t.eng.specs.Funcs[key+"@"+t.fn.Pkg.Pkg.Path()]; ct == nil { // assume-func-here of the calling package first
			ct = t.eng.specs.Funcs[key]
		}
		// a sequential proof (opt sequential: no other goroutine) uses the callee's sequential variant, if it has one
		if t.ct != nil && t.ct.Opts["sequential"] != "" {
			if sv := t.eng.specs.Funcs[key+"#sequential"]; sv != nil && sv.Opts["sequential"] != "" {
				ct = sv
			}
		}
	}
	if ct == nil && callee != nil && callee.Parent() != nil && closureOf.Fn != nil {
		// closure without contract: havoc
	}
	if ct == nil {
		t.havocCall(key, c, res)
		return
	}
	ct.Used = true
	if ct.Trusted {
		t.trusted[key] = true
	}
	t.applyContract(ct, key, callee, c, args, argTypes, tsubst, res, closureOf)
}

func (t *FnTrans) havocCall(key string, c *ssa.CallCommon, res ssa.Value) {
	t.abstr["havoc-call:"+key] = true
	defer t.keepPrivateCells()()
	// everything reachable may change
	for cn, s := range t.compSort {
		if strings.HasPrefix(cn, "L.") || strings.HasPrefix(cn, "GL.") {
			continue // lockset of the current goroutine is not changed by callees (balanced locking assumed for unknown code); ghost locals belong to this activation
		}
		if cn == "$alloc" {
			na := t.newConst("$alloc", "Int")
			t.assume(app(">=", na, t.get("$alloc")))
			t.set("$alloc", na)
			continue
		}
		_ = s
		t.set(cn, t.freshVersion(cn, "@h"))
	}
	t.havocRest()
	if res != nil {
		t.havocVal(res)
	}
}

// calleeNames returns parameter and result names for contract evaluation.
func calleeNames(ct *Contract, callee *ssa.Function, sig *types.Signature, isInvoke bool) (params []string, results []string) {
	if ct.Params != nil {
		params = ct.Params
	} else {
		if sig.Recv() != nil && !isInvoke {
			n := sig.Recv().Name()
			if n == "" || n == "_" {
				n = "recv"
			}
			params = append(params, n)
		} else if isInvoke {
			params = append(params, "recv")
		}
		for i := 0; i < sig.Params().Len(); i++ {
			n := sig.Params().At(i).Name()
			if n == "" || n == "_" {
				n = fmt.Sprintf("arg%d", i)
			}
			params = append(params, n)
		}
	}
	if ct.Results != nil {
		results = ct.Results
	} else {
		for i := 0; i < sig.Results().Len(); i++ {
			results = append(results, sig.Results().At(i).Name())
		}
	}
	return
}

func (t *FnTrans) applyContract(ct *Contract, key string, callee *ssa.Function, c *ssa.CallCommon, args []Val, argTypes []types.Type, tsubst map[string]types.Type, res ssa.Value, fnVal Val) {
	sig := c.Signature()
	if callee != nil {
		sig = callee.Signature
		if callee.Origin() != nil {
			sig = callee.Origin().Signature
		}
	}
	pn, rn := calleeNames(ct, callee, sig, c.IsInvoke())
	// closure bindings are visible under the free variable names
	env := &Env{t: t, vars: map[string]SVal{}, st: t.cur, subst: tsubst, selfAlloc0: t.get("$alloc")}
	if callee != nil && callee.Pkg != nil {
		env.pkg = callee.Pkg.Pkg
	} else if callee != nil && callee.Object() != nil {
		env.pkg = callee.Object().Pkg()
	} else if c.IsInvoke() && c.Method.Pkg() != nil {
		env.pkg = c.Method.Pkg()
	} else {
		env.pkg = t.fn.Pkg.Pkg
	}
	if ct.DeclPkg != "" {
		if sp := t.eng.byPath[ct.DeclPkg]; sp != nil {
			env.pkg = sp.Pkg
		}
	}
	if len(pn) != len(args) {
		// variadic / receiver mismatch: tolerate by naming the prefix
		if len(pn) > len(args) {
			t.fail("contract %s: %d parameter names for %d arguments", key, len(pn), len(args))
		}
	}
	for i, n := range pn {
		T := argTypes[i]
		sv := SVal{S: t.termOfOpt(args[i]), T: T, Sort: t.sortOf(T), Tgt: args[i].P, Box: args[i].Box, BoxSort: args[i].BoxSort}
		if args[i].Fn != nil {
			a := args[i]
			sv.FnV = &a
		}
		env.vars[n] = sv
	}
	if strings.HasPrefix(ct.Key, t.key+"#") || (t.ct != nil && strings.HasPrefix(ct.Key, t.ct.Key+"#")) {
		// callback of this function: its contract may mention the function's own parameters
		for n, v := range t.paramVals {
			if _, clash := env.vars[n]; !clash {
				env.vars[n] = SVal{S: v.S, T: t.paramTypes[n], Sort: t.sortOf(t.paramTypes[n])}
			}
		}
	}
	if callee != nil && fnVal.Bnd != nil {
		for i, fv := range callee.FreeVars {
			if i < len(fnVal.Bnd) {
				T := t.resolve(fv.Type())
				env.vars[fv.Name()] = SVal{S: t.termOfOpt(fnVal.Bnd[i]), T: T, Sort: t.sortOf(T), Tgt: fnVal.Bnd[i].P}
			}
		}
	}
	if ct.Opts["nolocks"] != "" {
		// a callback that must not run inside a critical section (it may call back into the object)
		for k, v := range t.cur.Held {
			if v != 0 {
				t.oblige("callback.underlock", "false", "callback invoked while holding "+k)
			}
		}
	}
	if pnameInv := ct.Opts["invokes"]; pnameInv != "" {
		// higher-order contract: the callee invokes this function argument (zero or more times, sequentially,
		// in the caller's goroutine, with the caller's locks held). A closure literal passed here is verified
		// separately under its own contract; its precondition must hold at this point and what it may modify
		// is havocked.
		for i, n := range pn {
			if n != pnameInv || i >= len(args) {
				continue
			}
			cv := args[i]
			if cv.Fn == nil {
				t.abstr["invoked function value is not a closure literal: "+key] = true
				t.havocCall("<invoked by "+key+">", c, nil)
				break
			}
			cc := t.eng.specs.Funcs[fnKey(cv.Fn)]
			if cc == nil {
				t.abstr["closure without contract passed to "+key] = true
				t.havocCall("<closure "+fnKey(cv.Fn)+" invoked by "+key+">", c, nil)
				break
			}
			cc.Used = true
			cenv := &Env{t: t, vars: map[string]SVal{}, st: t.cur, pkg: cv.Fn.Pkg.Pkg, selfAlloc0: t.get("$alloc")}
			for j, fv := range cv.Fn.FreeVars {
				if j < len(cv.Bnd) {
					T := t.resolve(fv.Type())
					cenv.vars[fv.Name()] = SVal{S: t.termOfOpt(cv.Bnd[j]), T: T, Sort: t.sortOf(T), Tgt: cv.Bnd[j].P}
				}
			}
			for _, p := range cv.Fn.Params {
				T := t.resolve(p.Type())
				a := t.newConst("cbarg."+p.Name(), t.sortOf(T))
				t.assume(t.rangeFact(a, T))
				cenv.vars[p.Name()] = SVal{S: a, T: T, Sort: t.sortOf(T)}
			}
			sk := fnKey(cv.Fn)
			if k := strings.LastIndex(sk, "/"); k >= 0 {
				sk = sk[k+1:]
			}
			for j, r := range cc.Requires {
				t.obligeNamed(fmt.Sprintf("pre.closure.%s.%d", sk, j+1), "pre", cenv.evalBool(r.E), "closure invoked by "+key+" requires: "+r.Text)
			}
			save := env
			_ = save
			t.applyModifies(cc, cenv)
			// what every invocation maintains holds after any number of them
			cenv.st = t.cur
			for _, m := range cc.Maintains {
				t.assume(cenv.evalBool(m.E))
			}
		}
	}
	// preconditions
	nth := t.count("call:" + key)
	short := key
	if i := strings.LastIndex(short, "/"); i >= 0 {
		short = short[i+1:]
	}
	var needUnlocked []string
	t.collectUnlocked = &needUnlocked
	for i, r := range ct.Requires {
		t.obligeNamed(fmt.Sprintf("pre.%s.%d.%d", short, nth, i+1), "pre", env.evalBool(r.E), r.Text)
	}
	t.collectUnlocked = nil
	for _, lc := range needUnlocked {
		// a callee that needs a lock free takes and releases it itself
		t.tpEvent(lc, true, true)
	}
	if callee == nil {
		t.checkGuardedGlobals(ct, env, short, nth)
	}
	t.checkCallbackArgs(ct, key, short, nth, pn, args, argTypes, env.pkg)
	if ct.PanicsIf != nil {
		// the callee panics exactly under its declared condition (pre-state): that is a panic of the
		// caller, allowed only under the caller's own panic condition; afterwards the call returned
		pc := env.evalBool(ct.PanicsIf.E)
		if t.ct != nil && t.ct.PanicsIf != nil {
			e0 := t.selfEnv(t.entry, nil)
			t.obligeNamed(fmt.Sprintf("panic.%s.%d", short, nth), "panic", implies(pc, e0.evalBool(t.ct.PanicsIf.E)), "callee panics only under the caller's declared panic condition")
		} else {
			t.obligeNamed(fmt.Sprintf("callpanic.%s.%d", short, nth), "callpanic", not(pc), "callee's panic condition is excluded: "+ct.PanicsIf.Text)
		}
		t.assume(not(pc))
	}
	pre := t.cur.clone()
	env.old = pre
	// frame
	t.callArgRefs = nil
	for i, a := range args {
		if i < len(argTypes) && t.sortOf(argTypes[i]) == "Int" {
			if _, isInt := intInfoOf(t.resolve(argTypes[i])); !isInt {
				if s := t.termOfOpt(a); s != "" {
					t.callArgRefs = append(t.callArgRefs, s)
				}
			}
		}
	}
	t.applyModifies(ct, env)
	env.st = t.cur
	for _, g := range ct.Ghost {
		if g.Arg == "at return" || g.Arg == "at entry" {
			// ghost effects of the callee are part of its ensures (callers see them through modifies + ensures)
		}
	}
	// results
	var rvals []Val
	resT := sig.Results()
	for i := 0; i < resT.Len(); i++ {
		T := resT.At(i).Type()
		if tsubst != nil {
			T = env.resolveT(T)
			T = substType(T, tsubst)
		}
		T = t.resolve(T)
		hint := "ret"
		if res != nil {
			hint = res.Name()
			if resT.Len() > 1 {
				hint = fmt.Sprintf("%s.%d", res.Name(), i)
			}
		}
		n := q(hint)
		if t.declared[n] {
			n = t.fresh(hint)
		}
		t.declare(n, t.sortOf(T))
		t.assume(t.rangeFact(n, T))
		rvals = append(rvals, Val{S: n})
		sv := SVal{S: n, T: T, Sort: t.sortOf(T)}
		env.vars[fmt.Sprintf("r%d", i)] = sv
		if i < len(rn) && rn[i] != "" && rn[i] != "_" {
			env.vars[rn[i]] = sv
		}
		if resT.Len() == 1 {
			env.vars["result"] = sv
		}
	}
	env.selfAlloc0 = pre.H["$alloc"]
	if ct.Opts["pure"] != "" && strings.Contains(ct.Key, "#") && len(rvals) == 1 && callee == nil {
		// a pure callback: its result is a function of the function value and the arguments (cbres in contracts)
		if fs := t.termOfOpt(fnVal); fs != "" {
			var as, sorts []string
			as = append(as, fs)
			sorts = append(sorts, "Int")
			ok := true
			for i, a := range args {
				s := t.termOfOpt(a)
				if s == "" || i >= len(argTypes) {
					ok = false
					break
				}
				as = append(as, s)
				sorts = append(sorts, t.sortOf(argTypes[i]))
			}
			if ok {
				rs := t.sortOf(t.resolve(resT.At(0).Type()))
				fn := cbresName(sorts[1:], rs)
				t.declareFun(fn, sorts, rs)
				t.assume(eq(rvals[0].S, app(fn, as...)))
			}
		}
	}
	if len(ct.Ensures) > 0 {
		t.cover(fmt.Sprintf("before.%s.%d", short, nth), "true")
	}
	t.freshObjectHavoc(ct, env, pre)
	for _, en := range ct.Ensures {
		t.assume(env.evalBool(en.E))
	}
	if len(ct.Ensures) > 0 {
		// vacuity guard: what the callee's postconditions add must be consistent with what is known here
		t.cover(fmt.Sprintf("after.%s.%d", short, nth), "true")
	}
	if strings.Contains(ct.Key, "#") && ct.Trusted {
		// callback contracts have no body: their ghost updates are performed here, by the caller
		for _, g := range ct.Ghost {
			if g.Arg == "at return" {
				t.ghostUpdate(g, env)
			}
		}
	}
	for _, m := range ct.Modifies {
		if m.E.Op == "call" && m.E.Name == "ghost" {
			t.checkGlobalInv("call of " + short)
			break
		}
	}
	if res != nil {
		switch len(rvals) {
		case 0:
			t.vals[res] = Val{}
		case 1:
			t.vals[res] = rvals[0]
		default:
			t.vals[res] = Val{Tup: rvals}
		}
	}
}

func substType(T types.Type, s map[string]types.Type) types.Type {
	switch x := T.(type) {
	case *types.TypeParam:
		if r, ok := s[x.Obj().Name()]; ok {
			return r
		}
	case *types.Pointer:
		return types.NewPointer(substType(x.Elem(), s))
	case *types.Slice:
		return types.NewSlice(substType(x.Elem(), s))
	case *types.Named:
		if x.TypeArgs() != nil && x.TypeArgs().Len() > 0 {
			var args []types.Type
			for i := 0; i < x.TypeArgs().Len(); i++ {
				args = append(args, substType(x.TypeArgs().At(i), s))
			}
			if inst, err := types.Instantiate(nil, x.Origin(), args, false); err == nil {
				return inst
			}
		}
	}
	return T
}

func (t *FnTrans) termOfOpt(v Val) string {
	if v.S != "" {
		return v.S
	}
	if v.P != nil {
		switch v.P.Kind {
		case "obj", "cell", "elemrow":
			return v.P.Ref
		case "field":
			return t.addrTerm(v.P)
		}
	}
	return ""
}

// addrTerm: the address of a field embedded in an object, as an injective function of the owner
// with values disjoint from allocated references (negative).
func (t *FnTrans) addrTerm(p *Ptr) string {
	f := q("addr$" + p.Comp)
	if !t.declared[f] {
		t.declareFun(f, []string{"Int"}, "Int")
		inv := q("addrinv$" + p.Comp)
		t.declareFun(inv, []string{"Int"}, "Int")
		t.emit(fmt.Sprintf("(assert (forall ((ar Int)) (! (and (< (%s ar) 0) (= (%s (%s ar)) ar)) :pattern ((%s ar)))))", f, inv, f, f))
		t.abstr["interior-pointer:"+p.Comp] = true
	}
	return app(f, p.Ref)
}

// applyModifies havocs what the callee's contract allows it to change.
func (t *FnTrans) applyModifies(ct *Contract, env *Env) {
	// allocation counter may always grow
	na := t.newConst("$alloc", "Int")
	t.emit("(assert " + implies(t.guard, app(">=", na, t.get("$alloc"))) + ")")
	t.set("$alloc", na)
	// all items denote locations of the pre-state: collect first, then havoc
	type modLoc struct{ comp, sortS, ref, cond string }
	var locs []modLoc
	preSt := t.cur.clone()
	saveSt := env.st
	env.st = preSt
	t.havocAll = false
	for _, m := range ct.Modifies {
		cond := ""
		if m.Cond != nil {
			cond = env.evalBool(m.Cond)
		}
		t.modItem(m.E, env, func(comp string, sortS string, ref string) {
			locs = append(locs, modLoc{comp, sortS, ref, cond})
		})
		if t.havocAll && cond != "" {
			t.fail("modifies-if ... then everything is not supported")
		}
	}
	defer t.keepPrivateCells()()
	var keepRefs [][3]string // component, ref, pre-state version: single locations that stay as they are
	defer func() {
		for _, k := range keepRefs {
			t.set(k[0], app("store", t.get(k[0]), k[1], app("select", k[2], k[1])))
		}
	}()
	if len(ct.Preserves) > 0 {
		// exceptions to `modifies everything`: whole components that stay as they are
		keep := map[string]bool{}
		hv := t.havocAll
		for _, m := range ct.Preserves {
			t.modItem(m.E, env, func(comp string, sortS string, ref string) {
				t.comp(comp, sortS)
				pre := t.get(comp) // materialise: a later total havoc must not give it a new generation
				if ref == "" {
					keep[comp] = true
				} else {
					keepRefs = append(keepRefs, [3]string{comp, ref, pre})
				}
			})
		}
		t.havocAll = hv
		var kept []modLoc
		for _, l := range locs {
			if !keep[l.comp] {
				kept = append(kept, l)
			}
		}
		locs = kept
	}
	env.st = saveSt
	if ct.Opts["debts-change"] != "" {
		// the callee returns with other notification debts than it was called with: its ensures (mydebt) say which
		var tds []string
		for cn := range t.compSort {
			if strings.HasPrefix(cn, "TD.") {
				tds = append(tds, cn)
			}
		}
		sort.Strings(tds)
		for _, cn := range tds {
			// only the debts for the objects handed to the callee can change
			for _, ref := range t.callArgRefs {
				fv := t.newConst(cn+"@dv", "Int")
				t.set(cn, app("store", t.get(cn), ref, fv))
			}
		}
	}
	if t.havocAll {
		// modifies everything: also what has not been mentioned on this path yet
		defer t.havocRest()
		t.havocAll = false
	}
	for _, ml := range locs {
		func(comp string, sortS string, ref string, cond string) {
			t.comp(comp, sortS)
			if cond != "" {
				// conditional item: unchanged unless the condition held in the pre-state
				old := t.get(comp)
				if ref == "" {
					t.set(comp, ite(cond, t.freshVersion(comp, "@m"), old))
				} else {
					fv := t.newConst(comp+"@mv", arrayElemSort(sortS))
					if T, ok := t.compT[comp]; ok && !strings.HasPrefix(comp, "E.") && !strings.HasPrefix(comp, "M.") {
						t.assume(t.rangeFact(fv, T))
					}
					t.set(comp, app("store", old, ref, ite(cond, fv, app("select", old, ref))))
				}
				return
			}
			if ref == "" {
				t.set(comp, t.freshVersion(comp, "@m"))
			} else {
				fv := t.newConst(comp+"@mv", arrayElemSort(sortS))
				if T, ok := t.compT[comp]; ok && !strings.HasPrefix(comp, "E.") && !strings.HasPrefix(comp, "M.") {
					t.assume(t.rangeFact(fv, T))
				} else if strings.HasPrefix(comp, "E.") {
					if T, ok := t.compT[comp]; ok {
						if ii, ok := intInfoOf(T); ok {
							t.emit(fmt.Sprintf("(assert (forall ((tf$i Int)) (! %s :pattern ((select %s tf$i)))))", ii.inRange(app("select", fv, "tf$i")), fv))
						}
					}
				}
				t.set(comp, app("store", t.get(comp), ref, fv))
			}
		}(ml.comp, ml.sortS, ml.ref, ml.cond)
	}
}

// modItem interprets one modifies item and reports (component, sort, ref) triples; ref == ""
// means the whole component.
func (t *FnTrans) modItem(x *Expr, env *Env, f func(comp, sort, ref string)) {
	switch {
	case x.Op == "id" && x.Name == "everything":
		for cn, s := range t.compSort {
			if cn != "$alloc" && !strings.HasPrefix(cn, "L.") && !strings.HasPrefix(cn, "GL.") {
				f(cn, s, "")
			}
		}
		t.havocAll = true
		return
	case x.Op == "id" && x.Name == "nothing":
		return
	case x.Op == "id" && x.Name == "chans":
		// the closed state of channels
		f("CH.closed", "(Array Int Bool)", "")
		return
	case x.Op == "call" && x.Name == "elems":
		v := env.eval(x.Args[0])
		u, ok := env.resolveT(v.T).Underlying().(*types.Slice)
		if !ok {
			t.fail("modifies elems(%s): not a slice", x.Args[0])
		}
		es := t.sortOf(u.Elem())
		f("E."+mangle(es), "(Array Int (Array Int "+es+"))", app("s.base", v.S))
		return
	case x.Op == "call" && x.Name == "atomic":
		// the value cell of the sync/atomic object x points to
		v := env.eval(x.Args[0])
		n, ok := derefNamed(env.resolveT(v.T))
		if !ok || n.Obj().Pkg() == nil || n.Obj().Pkg().Path() != "sync/atomic" {
			t.fail("modifies atomic(%s): not a sync/atomic object", x.Args[0])
		}
		var recv Val
		if _, isPtr := env.resolveT(v.T).Underlying().(*types.Pointer); !isPtr && v.P != nil && v.P.Kind == "field" {
			recv = Val{P: v.P} // atomic embedded by value in a struct
		} else {
			recv = Val{S: v.S} // standalone atomic referenced by pointer
		}
		p, ok2 := t.atomicCell(recv, "sync/atomic."+n.Obj().Name()+".Load")
		if !ok2 {
			t.fail("modifies atomic(%s): unsupported atomic type", x.Args[0])
		}
		t.modPtr(p, f)
		return
	case x.Op == "call" && x.Name == "monitor":
		// everything the monitors of x's type guard (fields, ghost fields, sleeper / owed / wake counters, tokens) at object x
		v := env.eval(x.Args[0])
		n, ok := derefNamed(env.resolveT(v.T))
		if !ok {
			t.fail("modifies monitor(%s): not a named type", x.Args[0])
		}
		ts := t.eng.specs.Types[typeName(n.Origin())]
		if ts == nil {
			t.fail("modifies monitor(%s): type has no monitor", x.Args[0])
		}
		tname := tshort(ts.Name)
		for _, m := range ts.Monitors {
			mr := &monRef{ts: ts, mon: m}
			for _, g := range m.Guards {
				if strings.HasPrefix(g, "global:") {
					pkg := ts.Name[:strings.LastIndex(ts.Name, ".")]
					if gs, ok := t.eng.specs.Ghosts[pkg+"."+g[len("global:"):]]; ok {
						f("GG."+pkg+"."+g[len("global:"):], gs, "")
					}
					continue
				}
				if strings.HasPrefix(g, "map:") {
					if ft := t.fieldTypeByName(ts.Name, g[len("map:"):]); ft != nil {
						if mt, ok := t.resolve(ft).Underlying().(*types.Map); ok {
							dc, vc, lc := t.mapComps(mt)
							fc := t.comp("H."+tname+"."+g[len("map:"):], "(Array Int Int)")
							mref := app("select", t.get(fc), v.S)
							f(dc, t.compSort[dc], mref)
							f(vc, t.compSort[vc], mref)
							f(lc, t.compSort[lc], mref)
						}
					}
					continue
				}
				if strings.HasPrefix(g, "elems:") {
					if ft := t.fieldTypeByName(ts.Name, g[len("elems:"):]); ft != nil {
						if u, ok := t.resolve(ft).Underlying().(*types.Slice); ok {
							es := t.sortOf(u.Elem())
							fc := t.comp("H."+tname+"."+g[len("elems:"):], "(Array Int Slice)")
							f("E."+mangle(es), "(Array Int (Array Int "+es+"))", app("s.base", app("select", t.get(fc), v.S)))
						}
					}
					continue
				}
				if c, s, ok := t.guardComp(mr, tname, g); ok {
					f(c, s, v.S)
				}
			}
			for _, cf := range m.Conds {
				sc, oc, _ := t.condComps(tname, cf)
				f(sc, "(Array Int Int)", v.S)
				f(oc, "(Array Int Int)", v.S)
				f(t.wakeComp(tname, cf), "(Array Int Int)", v.S)
			}
			for _, tk := range m.Tokens {
				sh, _ := t.tokComps(tname, tk)
				f(sh, "(Array Int Int)", v.S)
			}
		}
		return
	case x.Op == "call" && x.Name == "lock":
		// the lock state of the calling goroutine for this mutex: the function returns holding (or having released)
		// it; the ensures clauses say which
		lc, ref := env.lockComp(x.Args[0])
		f(lc, "(Array Int Int)", ref)
		return
	case x.Op == "call" && x.Name == "cells":
		// every cell of the given Go type (pointer targets of that type)
		T := env.typeArg(x.Args[0])
		p := t.ptrFromRef("0", T)
		t.modPtrWhole(p, f)
		return
	case x.Op == "call" && x.Name == "allelems":
		T := env.typeArg(x.Args[0])
		es := t.sortOf(T)
		f("E."+mangle(es), "(Array Int (Array Int "+es+"))", "")
		return
	case x.Op == "call" && x.Name == "map":
		v := env.eval(x.Args[0])
		mt, ok := env.resolveT(v.T).Underlying().(*types.Map)
		if !ok {
			t.fail("modifies map(%s): not a map", x.Args[0])
		}
		dc, vc, lc := t.mapComps(mt)
		f(dc, t.compSort[dc], v.S)
		f(vc, t.compSort[vc], v.S)
		f(lc, t.compSort[lc], v.S)
		return
	case x.Op == "call" && x.Name == "allmaps":
		// every map of the type of the given map expression (a callee may replace the map object by a copy)
		v := env.eval(x.Args[0])
		mt, ok := env.resolveT(v.T).Underlying().(*types.Map)
		if !ok {
			t.fail("modifies allmaps(%s): not a map", x.Args[0])
		}
		dc, vc, lc := t.mapComps(mt)
		f(dc, t.compSort[dc], "")
		f(vc, t.compSort[vc], "")
		f(lc, t.compSort[lc], "")
		return
	case x.Op == "call" && x.Name == "ghost":
		name := x.Args[0].Name
		gp := env.pkg
		if a := x.Args[0]; a.Op == "sel" && a.Args[0].Op == "id" {
			if p := t.eng.findPkg(a.Args[0].Name, env.pkg); p != nil {
				gp = p // ghost global of another package: ghost(pkg.name)
			}
		}
		if s, ok := t.eng.specs.Ghosts[gp.Path()+"."+name]; ok {
			f("GG."+gp.Path()+"."+name, s, "")
			return
		}
		t.fail("modifies ghost(%s): unknown ghost global", name)
	case x.Op == "un" && x.Name == "*":
		v := env.eval(x.Args[0])
		pt, ok := env.resolveT(v.T).Underlying().(*types.Pointer)
		if !ok {
			t.fail("modifies *%s: not a pointer", x.Args[0])
		}
		p := v.Tgt
		if p == nil {
			p = t.ptrFromRef(v.S, pt.Elem())
		}
		t.modPtr(p, f)
		return
	case x.Op == "sel":
		// pkg.Type.field: whole component of a type of another package
		if a := x.Args[0]; a.Op == "sel" && a.Args[0].Op == "id" {
			if _, isVar := env.vars[a.Args[0].Name]; !isVar {
				if pkg := t.eng.findPkg(a.Args[0].Name, env.pkg); pkg != nil {
					if o := pkg.Scope().Lookup(a.Name); o != nil {
						if tn, ok := o.(*types.TypeName); ok {
							if st, ok := tn.Type().Underlying().(*types.Struct); ok {
								if path, _ := findField(st, x.Name); path != nil {
									p := &Ptr{Kind: "obj", Ref: "0", T: tn.Type()}
									for _, i := range path {
										p = t.fieldPtr(p, i)
									}
									t.modPtrWhole(p, f)
									return
								}
							}
						}
					}
				}
			}
		}
		// Type.field (whole component) or obj.field
		if x.Args[0].Op == "id" {
			if _, isVar := env.vars[x.Args[0].Name]; !isVar {
				if T := env.lookupType(x.Args[0].Name); T != nil {
					st, ok := T.Underlying().(*types.Struct)
					if !ok {
						t.fail("modifies %s: not a struct type", x)
					}
					if x.Name == "*" {
						t.fail("modifies Type.* unsupported")
					}
					if path, ft := findField(st, x.Name); path != nil {
						p := &Ptr{Kind: "obj", Ref: "0", T: T}
						for _, i := range path {
							p = t.fieldPtr(p, i)
						}
						_ = ft
						t.modPtrWhole(p, f)
						return
					}
					if ts := t.eng.specs.Types[typeName(T)]; ts != nil {
						if gs, ok := ts.GhostField[x.Name]; ok {
							f(ghostCompName(originName(T), x.Name, gs, t.ghostSort(gs, T)), "(Array Int "+t.ghostSort(gs, T)+")", "")
							return
						}
					}
					t.fail("modifies %s: no such field", x)
				}
			}
		}
		v := env.eval(x)
		if v.P == nil {
			// ghost field of object
			base := env.eval(x.Args[0])
			if n, ok := derefNamed(env.resolveT(base.T)); ok {
				if ts := t.eng.specs.Types[typeName(n)]; ts != nil {
					if gs, ok := ts.GhostField[x.Name]; ok {
						ref := base.S
						if _, isPtr := env.resolveT(base.T).Underlying().(*types.Pointer); !isPtr {
							if base.P == nil {
								t.fail("modifies %s: ghost field of a struct value that is not a location", x)
							}
							ref = t.termOfOpt(Val{P: base.P})
						}
						f(ghostCompName(originName(n), x.Name, gs, t.ghostSort(gs, n)), "(Array Int "+t.ghostSort(gs, n)+")", ref)
						return
					}
				}
			}
			t.fail("modifies %s: not a location", x)
		}
		t.modPtr(v.P, f)
		return
	}
	t.fail("unsupported modifies item %s", x)
}

func (t *FnTrans) modPtr(p *Ptr, f func(comp, sort, ref string)) {
	if st, ok := t.isStruct(p.T); ok && (p.Kind == "field" || p.Kind == "obj") {
		for i := 0; i < st.NumFields(); i++ {
			t.modPtr(t.fieldPtr(p, i), f)
		}
		return
	}
	t.noteCompType(p, p.T)
	switch p.Kind {
	case "field", "cell":
		f(p.Comp, "(Array Int "+t.sortOf(p.T)+")", p.Ref)
	case "global":
		f(p.Comp, t.sortOf(p.T), "")
	case "elem":
		f(p.Comp, "(Array Int (Array Int "+t.sortOf(p.T)+"))", p.Ref)
	default:
		t.fail("modifies: unsupported pointer kind %s", p.Kind)
	}
}

func (t *FnTrans) modPtrWhole(p *Ptr, f func(comp, sort, ref string)) {
	if n, ok := t.resolve(p.T).(*types.Named); ok && n.Obj().Pkg() != nil && n.Obj().Pkg().Path() == "sync/atomic" && p.Kind == "field" {
		// the value cell of an atomic embedded by value
		if ap, ok := t.atomicCell(Val{P: p}, "sync/atomic."+n.Obj().Name()+".Load"); ok {
			f(ap.Comp, "(Array Int "+t.sortOf(ap.T)+")", "")
		}
	}
	if st, ok := t.isStruct(p.T); ok {
		for i := 0; i < st.NumFields(); i++ {
			t.modPtrWhole(t.fieldPtr(p, i), f)
		}
		return
	}
	if p.Kind == "elemrow" {
		at := t.resolve(p.T).Underlying().(*types.Array)
		f(p.Comp, "(Array Int (Array Int "+t.sortOf(at.Elem())+"))", "")
		return
	}
	t.noteCompType(p, p.T)
	f(p.Comp, "(Array Int "+t.sortOf(p.T)+")", "")
}

// frameCheck: at a return, everything not covered by the contract's modifies clause is
// unchanged for objects that existed at entry.
func (t *FnTrans) frameCheck() {
	if t.ct == nil || t.ct.Opts["noframe"] != "" {
		return
	}
	allowedWhole := map[string]bool{}
	allowedRefs := map[string][]string{}
	condWhole := map[string][]string{} // component -> conditions under which it may change as a whole
	env := t.selfEnv(t.entry, t.entry)
	for _, m := range t.ct.Modifies {
		if m.E.Op == "id" && m.E.Name == "everything" && m.Cond == nil {
			// only the declared exceptions are checked
			for _, pm := range t.ct.Preserves {
				t.modItem(pm.E, env, func(comp, sortS, ref string) {
					t.comp(comp, sortS)
					if ref != "" {
						now, was := t.get(comp), t.entryVersion(comp)
						if w, ok := t.entry.H[comp]; ok {
							was = w
						}
						if now != was {
							t.obligeNamed(fmt.Sprintf("frame.%s.at.%d%s", comp, t.count("presref"), t.retSuffix()), "frame", eq(app("select", now, ref), app("select", was, ref)), "location of "+comp+" is preserved")
						}
						return
					}
					now, ok1 := t.cur.H[comp]
					was, ok2 := t.entry.H[comp]
					if !ok1 {
						now = t.get(comp)
					}
					if !ok2 {
						was = t.entryVersion(comp)
					}
					if now != was {
						t.obligeNamed("frame."+comp+t.retSuffix(), "frame", eq(now, was), "component "+comp+" is preserved")
					}
				})
			}
			t.havocAll = false
			return
		}
		cond := ""
		if m.Cond != nil {
			cond = env.evalBool(m.Cond)
		}
		t.modItem(m.E, env, func(comp, sortS, ref string) {
			switch {
			case cond != "" && ref == "":
				condWhole[comp] = append(condWhole[comp], cond)
			case cond != "":
				// exempt the location only under the condition: fr$r != ref or not cond
				allowedRefs[comp] = append(allowedRefs[comp], "?"+cond+"?"+ref)
			case ref == "":
				allowedWhole[comp] = true
			default:
				allowedRefs[comp] = append(allowedRefs[comp], ref)
			}
		})
	}
	var comps []string
	for c := range t.cur.H {
		comps = append(comps, c)
	}
	sort.Strings(comps)
	a0 := q("$alloc@0")
	for _, c := range comps {
		if c == "$alloc" || allowedWhole[c] || strings.HasPrefix(c, "GL.") {
			continue
		}
		if strings.HasPrefix(c, "TD.") && t.ct.Opts["debts-change"] != "" {
			continue // notification debts of this thread: the contract says how they change (mydebt in ensures)
		}
		now := t.cur.H[c]
		was, ok := t.entry.H[c]
		if !ok || now == was {
			continue
		}
		s := t.compSort[c]
		var goal string
		if strings.HasPrefix(s, "(Array Int ") {
			cond := []string{app("<", "fr$r", a0), app(">", "fr$r", "0")}
			if strings.HasPrefix(c, "E.") {
				cond = []string{app("<", "fr$r", a0)}
			}
			if strings.HasPrefix(c, "L.") {
				// lock state of this goroutine: the function returns with exactly the locks it was entered with,
				// except those its contract lists as lock(x) (objects that existed at entry)
				cond = []string{app("<", "fr$r", a0)}
			}
			for _, r := range allowedRefs[c] {
				if strings.HasPrefix(r, "?") {
					k := strings.Index(r[1:], "?") + 1
					cond = append(cond, or(not(r[1:k]), not(eq("fr$r", r[k+1:]))))
					continue
				}
				cond = append(cond, not(eq("fr$r", r)))
			}
			for _, cw := range condWhole[c] {
				cond = append(cond, not(cw))
			}
			goal = fmt.Sprintf("(forall ((fr$r Int)) %s)", implies(and(cond...), eq(app("select", now, "fr$r"), app("select", was, "fr$r"))))
		} else {
			goal = eq(now, was)
			if len(condWhole[c]) > 0 {
				var ncs []string
				for _, cw := range condWhole[c] {
					ncs = append(ncs, not(cw))
				}
				goal = implies(and(ncs...), goal)
			}
		}
		t.obligeNamed("frame."+c+t.retSuffix(), "frame", goal, "component "+c+" changed only where the modifies clause allows")
	}
}

// ---------- defers ----------

func (t *FnTrans) runDefers() {
	var here *ssa.BasicBlock
	if t.curInstr != nil {
		here = t.curInstr.Block()
	}
	for i := len(t.defers) - 1; i >= 0; i-- {
		d := t.defers[i]
		// the defer was pushed iff its block was reached
		if here == nil || !d.call.Block().Dominates(here) {
			t.withGuard(d.guard, func() { t.curInstr = d.call; t.call(d.call, &d.call.Call, nil) })
		} else {
			t.curInstr = d.call
			t.call(d.call, &d.call.Call, nil)
		}
	}
}

func (t *FnTrans) blockDominatesCur(b *ssa.BasicBlock) bool {
	if t.curInstr == nil {
		return false
	}
	return b.Dominates(t.curInstr.Block())
}

// withGuard executes f under an additional guard and merges the state.
func (t *FnTrans) withGuard(g string, f func()) {
	before := t.cur.clone()
	saveG := t.guard
	t.guard = and(saveG, g)
	f()
	t.guard = saveG
	for c, v := range t.cur.H {
		old, ok := before.H[c]
		if !ok {
			old = t.genVersion(c, before.Gen)
		}
		if v != old {
			t.cur.H[c] = ite(g, v, old)
		}
	}
	t.cur.Gen = t.mergeGen([]string{g}, []string{t.cur.Gen, before.Gen})
}

// ---------- builtins ----------

func (t *FnTrans) builtin(b *ssa.Builtin, c *ssa.CallCommon, res ssa.Value) {
	switch b.Name() {
	case "len", "cap":
		a := c.Args[0]
		T := t.resolve(a.Type())
		switch u := T.Underlying().(type) {
		case *types.Slice:
			t.bind(res, app("s."+b.Name(), t.term(a)))
		case *types.Basic:
			t.bind(res, app("slen", t.term(a)))
		case *types.Map:
			_, _, lc := t.mapComps(u)
			m := t.term(a)
			t.bind(res, ite(eq(m, "0"), "0", app("select", t.get(lc), m)))
			t.assume(and(app(">=", t.vals[res].S, "0"), app("<=", t.vals[res].S, "9223372036854775807")))
			// a map of size 0 (a nil map included) has no keys
			dc, _, _ := t.mapComps(u)
			dom := app("select", t.get(dc), m)
			ks := t.sortOf(u.Key())
			t.assume(implies(eq(t.vals[res].S, "0"), fmt.Sprintf("(forall ((lk %s)) (! (not (select %s lk)) :pattern ((select %s lk))))", ks, dom, dom)))
		case *types.Array:
			t.bind(res, fmt.Sprint(u.Len()))
		case *types.Pointer:
			t.bind(res, fmt.Sprint(u.Elem().Underlying().(*types.Array).Len()))
		case *types.Chan:
			t.havocVal(res)
			t.assume(app(">=", t.vals[res].S, "0"))
		default:
			t.fail("len of %s", T)
		}
	case "append":
		t.appendBuiltin(c, res)
	case "copy":
		t.copyBuiltin(c, res)
	case "delete":
		t.mapDelete(c)
	case "print", "println":
	case "close":
		t.closeChan(c)
	case "min", "max":
		a, bb := t.term(c.Args[0]), t.term(c.Args[1])
		if len(c.Args) != 2 || t.sortOf(c.Args[0].Type()) != "Int" {
			t.fail("min/max form unsupported")
		}
		if b.Name() == "min" {
			t.bind(res, ite(app("<=", a, bb), a, bb))
		} else {
			t.bind(res, ite(app(">=", a, bb), a, bb))
		}
	case "recover":
		t.havocVal(res)
	case "ssa:wrapnilchk":
		t.vals[res] = t.val(c.Args[0])
	default:
		t.fail("unsupported builtin %s", b.Name())
	}
}

func (t *FnTrans) appendBuiltin(c *ssa.CallCommon, res ssa.Value) {
	s := t.term(c.Args[0])
	T := t.resolve(c.Args[0].Type())
	u := T.Underlying().(*types.Slice)
	es := t.sortOf(u.Elem())
	ec := t.comp("E."+mangle(es), "(Array Int (Array Int "+es+"))")
	var add string
	var addT types.Type
	if len(c.Args) > 1 {
		add = t.term(c.Args[1])
		addT = t.resolve(c.Args[1].Type())
	} else {
		t.vals[res] = t.val(c.Args[0])
		return
	}
	var n string
	isStr := t.sortOf(addT) == "Str"
	if isStr {
		n = app("slen", add)
	} else {
		n = app("s.len", add)
	}
	newLen := app("+", app("s.len", s), n)
	// nondeterministic choice: in place (if capacity suffices) or fresh array
	h := t.get(ec)
	fits := app("<=", newLen, app("s.cap", s))
	fr := t.allocRef()
	nb := ite(fits, app("s.base", s), fr)
	noff := ite(fits, app("s.off", s), "0")
	ncap := t.newConst("appcap", "Int")
	t.assume(and(app(">=", ncap, newLen), implies(fits, eq(ncap, app("s.cap", s)))))
	newArr := t.newConst("apparr", "(Array Int "+es+")")
	oldRow := app("select", h, app("s.base", s))
	// all facts are indexed by the position k in the new array, so that (select newArr k) is a usable trigger
	slen0 := app("s.len", s)
	// old elements preserved
	t.assume(fmt.Sprintf("(forall ((ak Int)) (! %s :pattern ((select %s ak))))", implies(and(app("<=", noff, "ak"), app("<", "ak", app("+", noff, slen0))),
		eq(app("select", newArr, "ak"), app("select", oldRow, app("+", app("s.off", s), app("-", "ak", noff))))), newArr))
	// in place: everything outside the appended window is unchanged
	t.assume(implies(fits, fmt.Sprintf("(forall ((ak Int)) (! %s :pattern ((select %s ak))))", implies(or(app("<", "ak", app("+", app("s.off", s), slen0)), app(">=", "ak", app("+", app("s.off", s), newLen))),
		eq(app("select", newArr, "ak"), app("select", oldRow, "ak"))), newArr)))
	// appended elements
	var src string
	if isStr {
		src = app("sidx", add, app("-", app("-", "ak", noff), slen0))
	} else {
		addRow := app("select", h, app("s.base", add))
		src = app("select", addRow, app("+", app("s.off", add), app("-", app("-", "ak", noff), slen0)))
	}
	t.assume(fmt.Sprintf("(forall ((ak Int)) (! %s :pattern ((select %s ak))))", implies(and(app("<=", app("+", noff, slen0), "ak"), app("<", "ak", app("+", noff, newLen))),
		eq(app("select", newArr, "ak"), src)), newArr))
	t.set(ec, app("store", h, nb, newArr))
	t.bind(res, app("mk-slice", nb, noff, newLen, ncap))
}

func (t *FnTrans) copyBuiltin(c *ssa.CallCommon, res ssa.Value) {
	dst, src := t.term(c.Args[0]), t.term(c.Args[1])
	T := t.resolve(c.Args[0].Type())
	u := T.Underlying().(*types.Slice)
	es := t.sortOf(u.Elem())
	ec := t.comp("E."+mangle(es), "(Array Int (Array Int "+es+"))")
	srcStr := t.sortOf(c.Args[1].Type()) == "Str"
	var sl string
	if srcStr {
		sl = app("slen", src)
	} else {
		sl = app("s.len", src)
	}
	n := t.newConst("copyn", "Int")
	t.emit("(assert (= " + n + " " + ite(app("<=", app("s.len", dst), sl), app("s.len", dst), sl) + "))")
	h := t.get(ec)
	newArr := t.newConst("copyarr", "(Array Int "+es+")")
	oldRow := app("select", h, app("s.base", dst))
	var srcAt func(i string) string
	if srcStr {
		srcAt = func(i string) string { return app("sidx", src, i) }
	} else {
		srcRow := app("select", h, app("s.base", src))
		srcAt = func(i string) string { return app("select", srcRow, app("+", app("s.off", src), i)) }
	}
	doff := app("s.off", dst)
	t.assume(fmt.Sprintf("(forall ((ci Int)) (! %s :pattern ((select %s ci))))",
		eq(app("select", newArr, "ci"), ite(and(app("<=", doff, "ci"), app("<", "ci", app("+", doff, n))), srcAt(app("-", "ci", doff)), app("select", oldRow, "ci"))), newArr))
	t.set(ec, app("store", h, app("s.base", dst), newArr))
	if res != nil {
		t.bind(res, n)
	}
}

// checkCallbackArgs: a callee whose contract constrains a function-typed parameter ("callback p(..)(..)"
// with ensures clauses) relies on every function passed for p to behave that way. At the call site this is
// an obligation: the contract of the function passed (a declared function or closure under contract, or the
// caller's own callback parameter) must imply the callee's callback postconditions, for all arguments and
// results. A function value of unknown origin fails the obligation (recorded, fail closed).
func (t *FnTrans) checkCallbackArgs(ct *Contract, key, short string, nth int, pn []string, args []Val, argTypes []types.Type, cpkg *types.Package) {
	if len(ct.Callback) == 0 {
		return
	}
	names := make([]string, 0, len(ct.Callback))
	for n := range ct.Callback {
		names = append(names, n)
	}
	sort.Strings(names)
	for _, cbName := range names {
		cb := ct.Callback[cbName]
		if cb.Opts["nolocks"] != "" {
			// the callee will invoke this function outside any critical section of its own; handing it over
			// while the caller holds a lock runs it inside the caller's critical section
			for k, v := range t.cur.Held {
				if v != 0 {
					t.obligeNamed(fmt.Sprintf("callback.underlock.%s.%d.%s", short, nth, cbName), "callback.underlock", "false", "function passed for "+cbName+" (to be run outside critical sections) while holding "+k)
				}
			}
		}
		if len(cb.Ensures) == 0 && cb.Opts["anytime"] == "" {
			continue
		}
		idx := -1
		for i, n := range pn {
			if n == cbName {
				idx = i
			}
		}
		if idx < 0 || idx >= len(args) {
			continue
		}
		a := args[idx]
		sig, ok := t.resolve(argTypes[idx]).Underlying().(*types.Signature)
		if !ok {
			continue
		}
		if a.Fn == nil && a.Nm == "" && a.S == "0" {
			continue // nil function value: the callee's own nil handling applies
		}
		var fc *Contract
		var fpkg *types.Package
		var fnames, rnames []string
		switch {
		case a.Fn != nil:
			fc = t.eng.specs.Funcs[fnKey(a.Fn)]
			if a.Fn.Pkg != nil {
				fpkg = a.Fn.Pkg.Pkg
			}
			if fc != nil {
				fsig := a.Fn.Signature
				fnames, rnames = calleeNames(fc, a.Fn, fsig, false)
				if fsig.Recv() != nil && len(fnames) > 0 {
					fnames = fnames[1:] // bound method value: receiver is not a callback argument
				}
			}
		case a.Nm != "" && t.ct != nil && t.ct.Callback[a.Nm] != nil:
			fc = t.ct.Callback[a.Nm]
			fpkg = t.fn.Pkg.Pkg
			fnames, rnames = fc.Params, fc.Results
		}
		obName := fmt.Sprintf("cbarg.%s.%d.%s", short, nth, cbName)
		if fc == nil && len(cb.Ensures) == 0 {
			continue // opt anytime only: nothing is known about what the function requires
		}
		if fc == nil {
			t.obligeNamed(obName, "cbarg", "false", "the function passed for "+cbName+" has no contract from which the callee's assumption about it could be established")
			continue
		}
		// fresh arguments and results
		mk := func(prefix string, tup *types.Tuple) []SVal {
			var out []SVal
			for i := 0; i < tup.Len(); i++ {
				T := t.resolve(tup.At(i).Type())
				n := t.newConst(prefix, t.sortOf(T))
				t.assume(t.rangeFact(n, T))
				out = append(out, SVal{S: n, T: T, Sort: t.sortOf(T)})
			}
			return out
		}
		ps := mk("cb$a", sig.Params())
		rs := mk("cb$r", sig.Results())
		bind := func(env *Env, pnames, rnames []string) {
			for i, v := range ps {
				if i < len(pnames) {
					env.vars[pnames[i]] = v
				}
			}
			for i, v := range rs {
				env.vars[fmt.Sprintf("r%d", i)] = v
				if i < len(rnames) && rnames[i] != "" {
					env.vars[rnames[i]] = v
				}
			}
		}
		fenv := &Env{t: t, vars: map[string]SVal{}, st: t.cur, old: t.cur, pkg: fpkg, selfAlloc0: t.get("$alloc")}
		if a.Fn != nil && a.Bnd != nil {
			for i, fv := range a.Fn.FreeVars {
				if i < len(a.Bnd) {
					T := t.resolve(fv.Type())
					fenv.vars[fv.Name()] = SVal{S: t.termOfOpt(a.Bnd[i]), T: T, Sort: t.sortOf(T), Tgt: a.Bnd[i].P}
				}
			}
		}
		bind(fenv, fnames, rnames)
		if cb.Opts["anytime"] != "" {
			// the callee keeps the function and may invoke it at any later time from a goroutine that holds none of the
			// caller's locks - also right now: what the function requires of the lock state and of the state its
			// bindings refer to must hold for such a goroutine in the current state
			fenv.noLocks = true
			for i, r := range fc.Requires {
				if !strings.Contains(r.Text, "held(") && !strings.Contains(r.Text, "unlocked(") {
					continue
				}
				t.obligeNamed(fmt.Sprintf("cbarg.anytime.%s.%d.%s.%d", short, nth, cbName, i+1), "cbarg", fenv.evalBool(r.E), "the function registered for "+cbName+" can be invoked at any time by a goroutine that holds no lock, but requires: "+r.Text)
			}
			fenv.noLocks = false
		}
		if len(cb.Ensures) == 0 {
			continue
		}
		var hyp []string
		for _, e := range fc.Ensures {
			hyp = append(hyp, fenv.evalBool(e.E))
		}
		cenv := &Env{t: t, vars: map[string]SVal{}, st: t.cur, old: t.cur, pkg: cpkg, selfAlloc0: t.get("$alloc")}
		bind(cenv, cb.Params, cb.Results)
		var goal []string
		for _, e := range cb.Ensures {
			goal = append(goal, cenv.evalBool(e.E))
		}
		t.obligeNamed(obName, "cbarg", implies(and(hyp...), and(goal...)), "the function passed for "+cbName+" satisfies what "+short+" assumes about it: "+cb.Ensures[0].Text)
	}
}

// freshObjectHavoc: a callee may allocate objects and initialise their fields; its postconditions talk about
// them (fresh(r0) && r0.f == ...). Those field values do not exist in the caller's pre-call heap versions, so the
// heap components that the postconditions read get a new version that agrees with the old one on every object
// that existed before the call and is unconstrained on the objects the callee allocated. (Asserting the
// postconditions on the old versions would contradict the closed-heap facts of those versions and make what
// follows vacuous.)
func (t *FnTrans) freshObjectHavoc(ct *Contract, env *Env, pre *State) {
	// only contracts that speak about objects the callee allocated: they say so with fresh(x)
	mentionsFresh := false
	for _, en := range ct.Ensures {
		if strings.Contains(en.Text, "fresh(") {
			mentionsFresh = true
		}
	}
	if !mentionsFresh || os.Getenv("GOVC_NO_FRESH_HAVOC") != "" {
		return
	}
	rec := map[string]bool{}
	t.recordGets = rec
	func() {
		defer func() { t.recordGets = nil }()
		for _, en := range ct.Ensures {
			env.evalBool(en.E)
		}
	}()
	allocPre, ok := pre.H["$alloc"]
	if !ok {
		allocPre = q("$alloc@0")
	}
	var comps []string
	for c := range rec {
		comps = append(comps, c)
	}
	sort.Strings(comps)
	for _, comp := range comps {
		if comp == "$alloc" || strings.HasPrefix(comp, "L.") || strings.HasPrefix(comp, "GG.") || strings.HasPrefix(comp, "TD.") || strings.HasPrefix(comp, "R.") {
			continue
		}
		s := t.compSort[comp]
		if !strings.HasPrefix(s, "(Array Int ") {
			continue
		}
		old := t.get(comp)
		if os.Getenv("GOVC_DEBUG_TP") != "" {
			fmt.Fprintf(os.Stderr, "fresh-havoc %s at call %s\n", comp, ct.Key)
		}
		nv := t.freshVersion(comp, "@fo")
		t.emit("(assert " + implies(t.guard, fmt.Sprintf("(forall ((fo$r Int)) (! (=> (< fo$r %s) (= (select %s fo$r) (select %s fo$r))) :pattern ((select %s fo$r))))", allocPre, nv, old, nv)) + ")")
		t.cur.H[comp] = nv
	}
}

// cbresName: the uninterpreted function standing for the result of a pure callback of the given argument / result sorts
func cbresName(argSorts []string, res string) string {
	return q("cbres$" + mangle(strings.Join(argSorts, ",")+"->"+res))
}

// checkGuardedGlobals: a call through an interface or function value whose contract modifies a ghost global that a
// monitor guards (`guards global:x`) changes that model state on behalf of the caller: the caller must hold the monitor
// lock (of some object of the guarding type) in write mode.
func (t *FnTrans) checkGuardedGlobals(ct *Contract, env *Env, short string, nth int) {
	if t.noGuardCheck || env.pkg == nil {
		return
	}
	for _, m := range ct.Modifies {
		if m.E.Op != "call" || m.E.Name != "ghost" || len(m.E.Args) != 1 || m.E.Args[0].Op != "id" {
			continue
		}
		gname := m.E.Args[0].Name
		pkg := env.pkg.Path()
		if _, ok := t.eng.specs.Ghosts[pkg+"."+gname]; !ok {
			continue
		}
		for name, ts := range t.eng.specs.Types {
			if !strings.HasPrefix(name, pkg+".") || name != t.recvTypeName() {
				continue // only methods of the guarding type act on its behalf (other users of the same model state are not its clients)
			}
			for _, mo := range ts.Monitors {
				for _, g := range mo.Guards {
					if g != "global:"+gname || mo.Atomic {
						continue
					}
					lc := t.comp("L."+tshort(name)+"."+mo.Lock, "(Array Int Int)")
					goal := fmt.Sprintf("(exists ((gg$r Int)) (= (select %s gg$r) 2))", t.get(lc))
					t.obligeNamed(fmt.Sprintf("guard.global.%s.%s.%d", gname, short, nth), "guard", goal, sprintf("%s changes the model state %s, which %s.%s guards: the lock must be held", short, gname, tshort(name), mo.Lock))
				}
			}
		}
	}
}

// recvTypeName: the (origin) named type whose method - or closure inside a method - this function is, "" otherwise
func (t *FnTrans) recvTypeName() string {
	f := t.fn
	for f.Parent() != nil {
		f = f.Parent()
	}
	if f.Signature.Recv() == nil {
		return ""
	}
	if n, ok := derefNamed(f.Signature.Recv().Type()); ok {
		return typeName(n.Origin())
	}
	return ""
}
