package main

import (
	"fmt"
	"go/types"
	"os"
	"sort"
	"strings"

	"golang.org/x/tools/go/ssa"
)

// Built-in ghost semantics for sync.Mutex / RWMutex / Cond and sync/atomic cells.
// Lock state per lock field: component L.<Type>.<field> : Array Int Int (0 free, 1 read-held by
// this goroutine, 2 write-held by this goroutine). The state is per goroutine: what other
// goroutines hold is represented only by the havoc of guarded fields at acquisition.

var intrinsicKeys = map[string]string{
	"sync.Mutex.Lock": "lock", "sync.Mutex.Unlock": "unlock", "sync.Mutex.TryLock": "trylock",
	"sync.RWMutex.Lock": "lock", "sync.RWMutex.Unlock": "unlock", "sync.RWMutex.RLock": "rlock", "sync.RWMutex.RUnlock": "runlock",
	"sync.RWMutex.TryLock": "trylock", "sync.RWMutex.TryRLock": "tryrlock",
	"sync.Cond.Wait": "wait", "sync.Cond.Signal": "signal", "sync.Cond.Broadcast": "broadcast",
}

func isIntrinsicKey(key string) bool {
	if _, ok := intrinsicKeys[key]; ok {
		return true
	}
	return strings.HasPrefix(key, "sync/atomic.")
}

// compParts splits "H.<pkg>.<Type>.<field...>" into the short type name "<pkg>.<Type>" and the field path.
func compParts(comp string) (string, string, bool) {
	parts := strings.Split(comp, ".")
	if len(parts) < 4 {
		return "", "", false
	}
	return parts[1] + "." + parts[2], strings.Join(parts[3:], "."), true
}

// tshort: "a/b/pkg.Type" -> "pkg.Type"
func tshort(full string) string {
	if i := strings.LastIndex(full, "/"); i >= 0 {
		return full[i+1:]
	}
	return full
}

type monRef struct {
	ts  *TypeSpec
	mon *MonitorSpec
	T   types.Type
}

// monitorOf finds the monitor declaration for lock component "H.Type.field".
func (t *FnTrans) monitorOfComp(comp string) *monRef {
	tname, field, ok := compParts(comp)
	if !ok {
		return nil
	}
	for name, ts := range t.eng.specs.Types {
		if tshort(name) != tname {
			continue
		}
		for _, m := range ts.Monitors {
			if m.Lock == field {
				return &monRef{ts: ts, mon: m}
			}
		}
	}
	return nil
}

func (t *FnTrans) lockPtr(c *ssa.CallCommon, args []Val) (comp string, ref string, ok bool) {
	if len(args) == 0 {
		return "", "", false
	}
	if u, isLoad := c.Args[0].(*ssa.UnOp); isLoad {
		if fa, isFA := u.X.(*ssa.FieldAddr); isFA {
			// mutex referenced through a pointer-typed field: identified with that field of its owner
			p := t.ptrOf(fa)
			if p.Kind == "field" {
				return "L" + p.Comp[1:], p.Ref, true
			}
		}
	}
	p := args[0].P
	if p == nil {
		// standalone mutex object
		if args[0].S == "" {
			return "", "", false
		}
		return "L.$obj", args[0].S, true
	}
	switch p.Kind {
	case "field":
		return "L" + p.Comp[1:], p.Ref, true
	case "obj", "cell":
		return "L.$obj", p.Ref, true
	case "global":
		return "L." + p.Comp, "0", true
	}
	return "", "", false
}

func (t *FnTrans) intrinsic(key string, c *ssa.CallCommon, args []Val, res ssa.Value) bool {
	kind, ok := intrinsicKeys[key]
	if !ok {
		if strings.HasPrefix(key, "sync/atomic.") {
			return t.atomicIntrinsic(key, c, args, res)
		}
		return false
	}
	if kind == "wait" || kind == "signal" || kind == "broadcast" {
		return t.condIntrinsic(kind, c, args, res)
	}
	comp, ref, ok := t.lockPtr(c, args)
	if !ok {
		t.fail("lock operation on an unresolvable mutex")
	}
	t.comp(comp, "(Array Int Int)")
	cur := app("select", t.get(comp), ref)
	mon := t.monitorOfComp("H" + comp[1:])
	switch kind {
	case "lock", "rlock":
		t.tpEvent(comp, true, false)
		t.oblige("lock.reentrant", eq(cur, "0"), "lock acquired while already held by this goroutine (self-deadlock)")
		t.lockOrder(comp, mon)
		mode := "2"
		if kind == "rlock" {
			mode = "1"
		}
		t.set(comp, app("store", t.get(comp), ref, mode))
		if mode == "2" {
			t.cur.Held[comp+"|"+ref] = 2
		} else {
			t.cur.Held[comp+"|"+ref] = 1
		}
		t.acquire(mon, ref)
		if mon != nil {
			t.ghostAt("after acquire")
		}
	case "trylock", "tryrlock":
		okn := t.newConst("trylock", "Bool")
		mode := "2"
		if kind == "tryrlock" {
			mode = "1"
		}
		t.assume(implies(not(eq(cur, "0")), not(okn)))
		t.set(comp, ite(okn, app("store", t.get(comp), ref, mode), t.get(comp)))
		if mon != nil {
			t.withGuard(okn, func() { t.acquire(mon, ref) })
		}
		if res != nil {
			t.vals[res] = Val{S: okn}
		}
	case "unlock":
		t.tpEvent(comp, false, true)
		t.oblige("unlock.held", eq(cur, "2"), "Unlock of a mutex that is not write-held")
		t.ghostAt("before unlock")
		t.release(mon, ref)
		t.set(comp, app("store", t.get(comp), ref, "0"))
		t.cur.Held[comp+"|"+ref] = 0
	case "runlock":
		t.tpEvent(comp, false, true)
		t.oblige("unlock.held", eq(cur, "1"), "RUnlock of a mutex that is not read-held")
		t.set(comp, app("store", t.get(comp), ref, "0"))
		t.cur.Held[comp+"|"+ref] = 0
	}
	return true
}

// lockOrder: every monitor lock of a level >= the new lock's level must be free.
func (t *FnTrans) lockOrder(comp string, mon *monRef) {
	if mon == nil || mon.mon.Level == 0 {
		return
	}
	for name, ts := range t.eng.specs.Types {
		short := tshort(name)
		for _, m := range ts.Monitors {
			if m.Level == 0 || m.Level < mon.mon.Level {
				continue
			}
			oc := "L." + short + "." + m.Lock
			if _, used := t.compSort[oc]; !used {
				continue
			}
			if oc == comp {
				continue // same class: covered by lock.reentrant for the same object; other objects of the same class share the level
			}
			t.oblige("lock.order", "(forall ((lo$r Int)) (= (select "+t.get(oc)+" lo$r) 0))", "lock order: "+oc+" (level "+itoa(m.Level)+") held while acquiring "+comp+" (level "+itoa(mon.mon.Level)+")")
		}
	}
}

func itoa(i int) string { return sprintf("%d", i) }

// guardedComps: heap components (and their sorts) of the fields guarded by the monitor.
func (t *FnTrans) guardedComps(mon *monRef, ownerComp string) []string {
	var out []string
	tname, _, _ := compParts(ownerComp)
	for _, g := range mon.mon.Guards {
		out = append(out, "H."+tname+"."+g)
	}
	return out
}

func (t *FnTrans) acquire(mon *monRef, ref string) {
	if mon == nil {
		return
	}
	if t.ct != nil && t.ct.Opts["sequential"] != "" {
		// sequential proof variant: no other goroutine exists, guarded state keeps its value;
		// the monitor invariant holds whenever the lock is free
		t.assumeMonitorInv(mon, ref)
		return
	}
	t.acquireHavocOnly(mon, ref)
	t.assumeMonitorInv(mon, ref)
}

// acquireHavocOnly: other goroutines may have changed everything the monitor guards.
func (t *FnTrans) acquireHavocOnly(mon *monRef, ref string) {
	tname := tshort(mon.ts.Name)
	for _, cf := range mon.mon.Conds {
		sc, oc, dc := t.condComps(tname, cf)
		for _, c := range []string{sc, oc, t.wakeComp(tname, cf)} {
			fv := t.newConst(c+"@acq", "Int")
			t.assume(app(">=", fv, "0"))
			t.cur.H[c] = app("store", t.get(c), ref, fv)
		}
		// owed = sum over all threads of their debts
		t.assume(app(">=", app("select", t.get(oc), ref), app("select", t.get(dc), ref)))
	}
	for _, tk := range mon.mon.Tokens {
		sh, mine := t.tokComps(tname, tk)
		fv := t.newConst(sh+"@acq", "Int")
		t.assume(app(">=", fv, app("select", t.get(mine), ref))) // shared count = sum over all threads
		t.assume(app(">=", fv, "0"))
		t.cur.H[sh] = app("store", t.get(sh), ref, fv)
	}
	// other goroutines may have changed the guarded fields: havoc them at this object
	for _, g := range mon.mon.Guards {
		if strings.HasPrefix(g, "global:") {
			// ghost global protected by this monitor (single-owner assumption, listed)
			pkg := mon.ts.Name[:strings.LastIndex(mon.ts.Name, ".")]
			name := g[len("global:"):]
			gs, ok := t.eng.specs.Ghosts[pkg+"."+name]
			if !ok {
				t.fail("monitor of %s guards unknown ghost global %s", mon.ts.Name, name)
			}
			c := t.comp("GG."+pkg+"."+name, gs)
			t.cur.H[c] = t.newConst(c+"@acq", gs)
			continue
		}
		if strings.HasPrefix(g, "map:") {
			// the contents of a map-typed field are shared state
			fname := g[len("map:"):]
			ft := t.fieldTypeByName(mon.ts.Name, fname)
			if ft == nil {
				t.fail("monitor of %s guards map contents of unknown field %s", mon.ts.Name, fname)
			}
			mt, ok := t.resolve(ft).Underlying().(*types.Map)
			if !ok {
				t.fail("monitor guard map:%s: not a map", fname)
			}
			dc, vc, lc := t.mapComps(mt)
			fc := t.comp("H."+tname+"."+fname, "(Array Int Int)")
			if _, has := t.compT[fc]; !has {
				t.compT[fc] = t.resolve(ft)
			}
			mref := app("select", t.get(fc), ref)
			t.cur.H[dc] = app("store", t.get(dc), mref, t.newConst(dc+"@acq", arrayElemSort(t.compSort[dc])))
			vv := t.newConst(vc+"@acq", arrayElemSort(t.compSort[vc]))
			t.cur.H[vc] = app("store", t.get(vc), mref, vv)
			ln := t.newConst(lc+"@acq", "Int")
			t.assume(app(">=", ln, "0"))
			t.cur.H[lc] = app("store", t.get(lc), mref, ln)
			if _, isSl := t.resolve(mt.Elem()).Underlying().(*types.Slice); isSl {
				ks := t.sortOf(mt.Key())
				t.assume(fmt.Sprintf("(forall ((mk$k %s)) (! (and (wf-slice (select %s mk$k)) (< (s.base (select %s mk$k)) %s)) :pattern ((select %s mk$k))))", ks, vv, vv, t.get("$alloc"), vv))
			}
			if t.sortOf(mt.Elem()) == "Int" {
				if _, isInt := intInfoOf(t.resolve(mt.Elem())); !isInt {
					// reference-typed values: what other goroutines stored are existing objects (closed heap)
					ks := t.sortOf(mt.Key())
					t.assume(fmt.Sprintf("(forall ((mk$k %s)) (! (and (<= 0 (select %s mk$k)) (< (select %s mk$k) %s)) :pattern ((select %s mk$k))))", ks, vv, vv, t.get("$alloc"), vv))
				}
			}
			continue
		}
		if strings.HasPrefix(g, "elems:") {
			// the elements of a slice-typed field are shared state as well
			fname := g[len("elems:"):]
			ft := t.fieldTypeByName(mon.ts.Name, fname)
			if ft == nil {
				t.fail("monitor of %s guards elems of unknown field %s", mon.ts.Name, fname)
			}
			u, ok := t.resolve(ft).Underlying().(*types.Slice)
			if !ok {
				t.fail("monitor guard elems:%s: not a slice", fname)
			}
			es := t.sortOf(u.Elem())
			ec := t.comp("E."+mangle(es), "(Array Int (Array Int "+es+"))")
			t.compT[ec] = t.resolve(u.Elem())
			fc := t.comp("H."+tname+"."+fname, "(Array Int Slice)")
			if _, has := t.compT[fc]; !has {
				t.compT[fc] = t.resolve(ft)
			}
			base := app("s.base", app("select", t.get(fc), ref))
			row := t.newConst(ec+"@acqrow", "(Array Int "+es+")")
			if ii, ok := intInfoOf(t.resolve(u.Elem())); ok {
				t.emit(fmt.Sprintf("(assert (forall ((tf$i Int)) (! %s :pattern ((select %s tf$i)))))", ii.inRange(app("select", row, "tf$i")), row))
			}
			t.cur.H[ec] = app("store", t.get(ec), base, row)
			continue
		}
		c, s, ok := t.guardComp(mon, tname, g)
		if !ok {
			continue
		}
		fv := t.newConst(c+"@acq", arrayElemSort(s))
		if true {
			// range / well-formedness of the field's Go type
			if ft := t.fieldTypeByName(mon.ts.Name, g); ft != nil {
				t.assume(t.rangeFact(fv, ft))
				if _, isPtr := t.resolve(ft).Underlying().(*types.Pointer); isPtr && !t.mayHavePublished {
					// what other goroutines stored cannot be an object this call allocated and has not published
					t.assume(or(app("<", fv, q("$alloc@0")), eq(fv, "0")))
				}
			}
		}
		t.cur.H[c] = app("store", t.get(c), ref, fv)
	}
}

func (t *FnTrans) release(mon *monRef, ref string) {
	if mon == nil {
		return
	}
	if os.Getenv("GOVC_DEBUG_TP") != "" {
		for c, v := range t.cur.H {
			if strings.HasPrefix(c, "GG.") {
				fmt.Fprintf(os.Stderr, "release: %s = %.60s (guard %s)\n", c, v, t.guard)
			}
		}
	}
	for i, inv := range mon.mon.Inv {
		env := t.monEnv(mon, ref)
		t.oblige("mon.release", env.evalBool(inv.E), sprintf("monitor invariant %d of %s at release: %s", i+1, tshort(mon.ts.Name), inv.Text))
	}
}

func (t *FnTrans) assumeMonitorInv(mon *monRef, ref string) {
	for _, inv := range mon.mon.Inv {
		env := t.monEnv(mon, ref)
		t.assume(env.evalBool(inv.E))
	}
}

func (t *FnTrans) monEnv(mon *monRef, ref string) *Env {
	T := t.eng.namedType(mon.ts.Name)
	if T == nil {
		t.fail("monitor: type %s not found", mon.ts.Name)
	}
	var TT types.Type = T
	if T.TypeParams() != nil && T.TypeParams().Len() > 0 {
		// instantiate with this function's substitution by name
		var args []types.Type
		for i := 0; i < T.TypeParams().Len(); i++ {
			n := T.TypeParams().At(i).Obj().Name()
			if r, ok := t.subst[n]; ok {
				args = append(args, r)
			} else {
				args = append(args, T.TypeParams().At(i))
			}
		}
		if inst, err := types.Instantiate(nil, T, args, false); err == nil {
			TT = inst
		}
	}
	env := &Env{t: t, vars: map[string]SVal{}, st: t.cur, old: t.entry, pkg: T.Obj().Pkg(), selfAlloc0: q("$alloc@0")}
	env.vars["self"] = SVal{S: ref, T: types.NewPointer(TT), Sort: "Int"}
	return env
}

func shortName(n string) string {
	if i := strings.LastIndex(n, "/"); i >= 0 {
		n = n[i+1:]
	}
	if i := strings.Index(n, "."); i >= 0 {
		n = n[i+1:]
	}
	return n
}

func (t *FnTrans) fieldTypeByName(typeFull, field string) types.Type {
	T := t.eng.namedType(typeFull)
	if T == nil {
		return nil
	}
	st, ok := T.Underlying().(*types.Struct)
	if !ok {
		return nil
	}
	_, ft := findField(st, field)
	return ft
}

// guardComp: component name and sort of guarded field g (real or ghost) of the monitor's type.
func (t *FnTrans) guardComp(mon *monRef, tname, g string) (string, string, bool) {
	if gs, ok := mon.ts.GhostField[g]; ok {
		c := "H." + tname + ".$" + g
		if ex, has := t.compSort[c]; has {
			return c, ex, true // already in use in this function (possibly at an instantiated sort)
		}
		return t.comp(c, "(Array Int "+gs+")"), "(Array Int " + gs + ")", true
	}
	ft := t.fieldTypeByName(mon.ts.Name, g)
	if ft == nil {
		t.fail("monitor of %s guards unknown field %s", mon.ts.Name, g)
	}
	ft = t.resolve(ft)
	if _, isS := ft.Underlying().(*types.Struct); isS {
		// struct-valued guarded field: its scalar components are havocked on demand only when present
		return "", "", false
	}
	c := "H." + tname + "." + g
	s := "(Array Int " + t.sortOf(ft) + ")"
	if _, has := t.compT[c]; !has {
		t.compT[c] = ft
	}
	return t.comp(c, s), s, true
}

// checkGuarded: guarded-by obligation for an access to p.
func (t *FnTrans) checkGuarded(p *Ptr, write bool) {
	if t.noGuardCheck || p == nil || p.Kind != "field" {
		return
	}
	tname, field, ok := compParts(p.Comp)
	if !ok {
		return
	}
	for name, ts := range t.eng.specs.Types {
		if tshort(name) != tname {
			continue
		}
		for _, m := range ts.Monitors {
			for _, g := range m.Guards {
				if g != field {
					continue
				}
				lc := t.comp("L."+tname+"."+m.Lock, "(Array Int Int)")
				st := app("select", t.get(lc), p.Ref)
				need := app(">=", st, "1")
				what := "read"
				if write {
					need = eq(st, "2")
					what = "write"
				}
				if m.Atomic {
					continue
				}
				if !write && t.unguardedRead(field) {
					continue
				}
				// objects allocated by this call and not yet published are thread-local
				t.oblige("guard", or(need, app(">=", p.Ref, q("$alloc@0"))), sprintf("%s of %s.%s requires %s.%s to be held", what, tname, field, tname, m.Lock))
			}
		}
	}
}

func (t *FnTrans) checkGuardedWrite(p *Ptr) {}

// checkGuardedMap: guarded-by obligation for an access to the contents of a map that was loaded
// from a field whose contents a monitor guards (guard "map:<field>").
func (t *FnTrans) checkGuardedMap(m ssa.Value, write bool) {
	u, ok := m.(*ssa.UnOp)
	if !ok {
		return
	}
	fa, ok := u.X.(*ssa.FieldAddr)
	if !ok {
		return
	}
	p := t.ptrOf(fa)
	tname, field, ok := compParts(p.Comp)
	if !ok {
		return
	}
	for name, ts := range t.eng.specs.Types {
		if tshort(name) != tname {
			continue
		}
		for _, mo := range ts.Monitors {
			for _, g := range mo.Guards {
				if g != "map:"+field {
					continue
				}
				if !write && t.unguardedRead(field) {
					continue
				}
				lc := t.comp("L."+tname+"."+mo.Lock, "(Array Int Int)")
				st := app("select", t.get(lc), p.Ref)
				need, what := app(">=", st, "1"), "read"
				if write {
					need, what = eq(st, "2"), "write"
				}
				t.oblige("guard", or(need, app(">=", p.Ref, q("$alloc@0"))), sprintf("%s of the contents of %s.%s requires %s.%s to be held", what, tname, field, tname, mo.Lock))
			}
		}
	}
}

// ---------- condition variables (Hamin & Jacobs style ghost counters) ----------
// Per condition variable C of a monitor: ghost sleep_C (threads asleep on C) and owed_C
// (notifications that awake threads have promised: recorded with `owe C if e` before they release
// the monitor lock, discharged by their Signal/Broadcast, which may happen outside the lock).
// Both are monitor-guarded ghost fields; TD.<type>.<C> is the thread-local count of debts this
// thread holds. The monitor invariant relates them (no lost wake-up); it is checked at every
// release, and for out-of-lock notifications as an atomic ghost action on an arbitrary state
// satisfying the invariant (obligations mon.notify).

func (t *FnTrans) condMonitor(tname, field string) *monRef {
	for name, ts := range t.eng.specs.Types {
		if tshort(name) != tname {
			continue
		}
		for _, m := range ts.Monitors {
			for _, cf := range m.Conds {
				if cf == field {
					return &monRef{ts: ts, mon: m}
				}
			}
		}
	}
	return nil
}

func (t *FnTrans) condComps(tname, field string) (sleep, owed, debt string) {
	sleep = t.comp("H."+tname+".$sleep_"+field, "(Array Int Int)")
	owed = t.comp("H."+tname+".$owed_"+field, "(Array Int Int)")
	debt = t.comp("TD."+tname+"."+field, "(Array Int Int)")
	return
}

func (t *FnTrans) wakeComp(tname, field string) string {
	return t.comp("H."+tname+".$wake_"+field, "(Array Int Int)")
}

// tokComps: shared count and this thread's count of a declared ghost token.
func (t *FnTrans) tokComps(tname, name string) (shared, mine string) {
	return t.comp("H."+tname+".$tok_"+name, "(Array Int Int)"), t.comp("TD."+tname+".tok."+name, "(Array Int Int)")
}

// havocMonitor: what other goroutines may have done while the lock was not held.
func (t *FnTrans) havocMonitor(mon *monRef, ref string) {
	save := t.ct
	if t.ct != nil && t.ct.Opts["sequential"] != "" {
		// even sequential variants must treat out-of-lock points as interference-free: nothing to do
		return
	}
	t.ct = save
	t.acquireHavocOnly(mon, ref)
}

func (t *FnTrans) condIntrinsic(kind string, c *ssa.CallCommon, args []Val, res ssa.Value) bool {
	field, ownerRef, tname := t.condField(c.Args[0])
	if field == "" {
		t.abstr["cond-unresolved"] = true
		if kind == "wait" {
			t.fail("sync.Cond.Wait on an unresolvable condition variable")
		}
		return true
	}
	mon := t.condMonitor(tname, field)
	if mon == nil && kind == "wait" && t.ct != nil && t.ct.Opts["only-ghost-asserts"] != "" {
		// only the ghost assertions of this function are checked: the wait is an arbitrary state change
		t.havocCall("sync.Cond.Wait (abstracted)", c, res)
		return true
	}
	if mon == nil {
		if kind == "wait" {
			t.fail("sync.Cond.Wait on %s.%s: no monitor declares this condition variable", tname, field)
		}
		t.abstr["cond-undeclared:"+tname+"."+field] = true
		if kind == "signal" || kind == "broadcast" {
			t.ghostAt("after notify") // "ghost after notify: ..." (Signal or Broadcast on an undeclared condition variable)
		}
		return true
	}
	sc, oc, dc := t.condComps(tname, field)
	lc := t.comp("L."+tname+"."+mon.mon.Lock, "(Array Int Int)")
	hk := lc + "|" + ownerRef
	sl := func() string { return app("select", t.get(sc), ownerRef) }
	switch kind {
	case "wait":
		t.oblige("wait.held", eq(app("select", t.get(lc), ownerRef), "2"), "Cond.Wait requires the monitor lock")
		// go to sleep: one more sleeper; release the monitor
		t.ghostAt("before wait")
		t.set(sc, app("store", t.get(sc), ownerRef, app("+", sl(), "1")))
		t.release(mon, ownerRef)
		// woken up by a Signal/Broadcast (which moved this thread from the sleeper count to the
		// wake-up grants) and re-acquired: consume the grant
		t.acquire(mon, ownerRef)
		wc := t.wakeComp(tname, field)
		wk := app("select", t.get(wc), ownerRef)
		if t.ct == nil || t.ct.Opts["sequential"] == "" {
			t.assume(app(">=", wk, "1")) // sync.Cond.Wait returns only when awoken by Signal/Broadcast
		}
		t.set(wc, app("store", t.get(wc), ownerRef, app("-", wk, "1")))
		t.ghostAt("after wait")
	case "signal", "broadcast":
		upd := func() {
			wc := t.wakeComp(tname, field)
			wk := app("select", t.get(wc), ownerRef)
			cur := sl()
			if kind == "signal" {
				t.set(wc, app("store", t.get(wc), ownerRef, ite(app(">", cur, "0"), app("+", wk, "1"), wk)))
				t.set(sc, app("store", t.get(sc), ownerRef, ite(app(">", cur, "0"), app("-", cur, "1"), cur)))
			} else {
				t.set(wc, app("store", t.get(wc), ownerRef, app("+", wk, cur)))
				t.set(sc, app("store", t.get(sc), ownerRef, "0"))
			}
		}
		switch t.cur.Held[hk] {
		case 2:
			upd() // inside the critical section: covered by the invariant check at release
		case 0:
			// outside the lock: an atomic ghost action on an arbitrary state satisfying the invariant
			myDebt := app("select", t.get(dc), ownerRef)
			t.acquireHavocOnly(mon, ownerRef)
			t.assumeMonitorInv(mon, ownerRef)
			t.assume(app(">=", app("select", t.get(oc), ownerRef), myDebt)) // owed = sum of all threads' debts
			upd()
			pays := app(">", myDebt, "0")
			t.set(oc, app("store", t.get(oc), ownerRef, ite(pays, app("-", app("select", t.get(oc), ownerRef), "1"), app("select", t.get(oc), ownerRef))))
			t.set(dc, app("store", t.get(dc), ownerRef, ite(pays, app("-", myDebt, "1"), myDebt)))
			for i, inv := range mon.mon.Inv {
				env := t.monEnv(mon, ownerRef)
				t.oblige("mon.notify", env.evalBool(inv.E), sprintf("monitor invariant %d of %s preserved by the out-of-lock %s on %s: %s", i+1, tname, kind, field, inv.Text))
			}
		default:
			t.fail("cannot determine statically whether %s.%s is held at the %s of %s", tname, mon.mon.Lock, kind, field)
		}
	}
	return true
}

// condField: the receiver of a Cond method is `&obj.field` (sync.Cond field) or `*(&obj.field)`
// (*sync.Cond field): returns field name, owner ref, short type name.
func (t *FnTrans) condField(v ssa.Value) (string, string, string) {
	var fa *ssa.FieldAddr
	switch x := v.(type) {
	case *ssa.FieldAddr:
		fa = x
	case *ssa.UnOp:
		f, ok := x.X.(*ssa.FieldAddr)
		if !ok {
			return "", "", ""
		}
		fa = f
	default:
		return "", "", ""
	}
	p := t.ptrOf(fa)
	tn, f, ok := compParts(p.Comp)
	if !ok {
		return "", "", ""
	}
	return f, p.Ref, tn
}

// ---------- sync/atomic ----------

func (t *FnTrans) atomicCell(recv Val, key string) (*Ptr, bool) {
	p := recv.P
	if p == nil {
		if recv.S == "" {
			return nil, false
		}
		p = &Ptr{Kind: "cell", Ref: recv.S} // standalone atomic object referenced by pointer
	}
	// key: sync/atomic.Bool.Load etc.
	parts := strings.Split(strings.TrimPrefix(key, "sync/atomic."), ".")
	if len(parts) != 2 {
		return nil, false
	}
	var T types.Type
	switch parts[0] {
	case "Bool":
		T = types.Typ[types.Bool]
	case "Int32":
		T = types.Typ[types.Int32]
	case "Int64":
		T = types.Typ[types.Int64]
	case "Uint32":
		T = types.Typ[types.Uint32]
	case "Uint64":
		T = types.Typ[types.Uint64]
	case "Uintptr":
		T = types.Typ[types.Uintptr]
	case "Pointer":
		T = types.Typ[types.UnsafePointer]
	case "Value":
		T = types.Typ[types.UnsafePointer]
	default:
		return nil, false
	}
	switch p.Kind {
	case "field":
		return &Ptr{Kind: "field", Comp: p.Comp + ".$a", Ref: p.Ref, T: T}, true
	case "obj", "cell":
		return &Ptr{Kind: "cell", Comp: "C.$atomic." + parts[0], Ref: p.Ref, T: T}, true
	case "global":
		return &Ptr{Kind: "global", Comp: p.Comp + ".$a", T: T}, true
	}
	return nil, false
}

func (t *FnTrans) atomicIntrinsic(key string, c *ssa.CallCommon, args []Val, res ssa.Value) bool {
	if len(args) == 0 {
		return false
	}
	p, ok := t.atomicCell(args[0], key)
	if !ok {
		return false
	}
	method := key[strings.LastIndex(key, ".")+1:]
	t.abstr["atomics-sequential"] = true
	havocLoad := t.ct != nil && t.ct.Opts["atomics"] == "havoc"
	switch method {
	case "Load":
		if havocLoad {
			t.havocVal(res)
			return true
		}
		t.bind(res, t.load(p))
		t.assume(t.rangeFact(t.vals[res].S, res.Type()))
	case "Store":
		t.store(p, t.termOf(args[1], c.Args[len(c.Args)-1]))
	case "Swap":
		old := t.load(p)
		if res != nil {
			t.bind(res, old)
		}
		t.store(p, t.termOf(args[1], nil))
	case "Add":
		ii, _ := intInfoOf(p.T)
		nv := ii.wrap1(app("+", t.load(p), args[1].S))
		if t.ct != nil && t.ct.Opts["assume-no-overflow"] != "" {
			nv = app("+", t.load(p), args[1].S)
			t.assume(ii.inRange(nv))
			t.abstr["assumed: atomic Add does not overflow (opt assume-no-overflow)"] = true
		}
		t.store(p, nv)
		if res != nil {
			t.bind(res, nv)
		}
	case "CompareAndSwap":
		old := t.load(p)
		okc := eq(old, t.termOf(args[1], nil))
		t.store(p, ite(okc, t.termOf(args[2], nil), old))
		if res != nil {
			t.bind(res, okc)
		}
	default:
		return false
	}
	return true
}

// intrinsicWrites: loop write-set contribution of an intrinsic call. Returns false if it
// cannot be determined statically.
func (t *FnTrans) intrinsicWrites(key string, c *ssa.CallCommon, l *loopInfo) bool {
	if len(c.Args) == 0 {
		return false
	}
	recv := c.Args[0]
	if strings.HasPrefix(key, "sync/atomic.") {
		fa, ok := recv.(*ssa.FieldAddr)
		if !ok {
			return false
		}
		comp, _, ok := t.staticFieldComp(fa)
		if !ok {
			return false
		}
		parts := strings.Split(strings.TrimPrefix(key, "sync/atomic."), ".")
		s := "Int"
		if parts[0] == "Bool" {
			s = "Bool"
		}
		t.w(l, comp+".$a", "(Array Int "+s+")")
		if t.viaCalls {
			// written only at the owner of this field: loop frame for every other object
			if _, nested := fa.X.(*ssa.FieldAddr); !nested {
				t.noteVia(l, comp+".$a", fa.X)
				t.viaNoted[comp+".$a"] = true
			}
		}
		return true
	}
	kind := intrinsicKeys[key]
	if kind == "wait" || kind == "signal" || kind == "broadcast" {
		var fa *ssa.FieldAddr
		switch x := recv.(type) {
		case *ssa.FieldAddr:
			fa = x
		case *ssa.UnOp:
			fa, _ = x.X.(*ssa.FieldAddr)
		}
		if fa == nil {
			return false
		}
		comp, _, ok := t.staticFieldComp(fa)
		if !ok {
			return false
		}
		tname, field, ok := compParts(comp)
		if !ok {
			return false
		}
		mon := t.condMonitor(tname, field)
		if mon == nil {
			return false
		}
		t.monitorWrites(mon, tname, l, fa.X)
		return true
	}
	if u, isLoad := recv.(*ssa.UnOp); isLoad {
		recv = u.X
	}
	fa, ok := recv.(*ssa.FieldAddr)
	if !ok {
		return false
	}
	comp, _, ok := t.staticFieldComp(fa)
	if !ok {
		return false
	}
	t.w(l, "L"+comp[1:], "(Array Int Int)")
	if mon := t.monitorOfComp(comp); mon != nil {
		tname, _, _ := compParts(comp)
		t.monitorWrites(mon, tname, l, fa.X)
	}
	return true
}

// monitorWrites: everything an acquisition of the monitor may change.
func (t *FnTrans) monitorWrites(mon *monRef, tname string, l *loopInfo, base ssa.Value) {
	before := map[string]bool{}
	for c := range l.writes {
		before[c] = true
	}
	defer func() {
		// all of these writes are at the monitor's owner object
		if base == nil || !t.viaCalls {
			return
		}
		for c := range l.writes {
			if !before[c] && strings.HasPrefix(t.compSort[c], "(Array Int ") && !strings.HasPrefix(c, "E.") && !strings.HasPrefix(c, "GG.") {
				t.noteVia(l, c, base)
				t.viaNoted[c] = true
			}
		}
	}()
	t.w(l, "L."+tname+"."+mon.mon.Lock, "(Array Int Int)")
	for _, cf := range mon.mon.Conds {
		sc, oc, _ := t.condComps(tname, cf)
		l.writes[sc], l.writes[oc], l.writes[t.wakeComp(tname, cf)] = true, true, true
	}
	for _, tk := range mon.mon.Tokens {
		sh, mine := t.tokComps(tname, tk)
		l.writes[sh] = true
		if t.ct != nil {
			for _, g := range t.ct.Ghost {
				if strings.HasPrefix(g.Text, "take "+tk) || strings.HasPrefix(g.Text, "give "+tk) {
					l.writes[mine] = true // this function moves the token (e.g. around a Wait)
				}
			}
		}
	}
	if true {
		for _, g := range mon.mon.Guards {
			if strings.HasPrefix(g, "global:") {
				pkg := mon.ts.Name[:strings.LastIndex(mon.ts.Name, ".")]
				if gs, ok := t.eng.specs.Ghosts[pkg+"."+g[len("global:"):]]; ok {
					t.w(l, "GG."+pkg+"."+g[len("global:"):], gs)
				}
				continue
			}
			if strings.HasPrefix(g, "elems:") {
				if ft := t.fieldTypeByName(mon.ts.Name, g[len("elems:"):]); ft != nil {
					if u, ok := t.resolve(ft).Underlying().(*types.Slice); ok {
						t.wElem(l, u.Elem())
					}
				}
				continue
			}
			if strings.HasPrefix(g, "map:") {
				if ft := t.fieldTypeByName(mon.ts.Name, g[len("map:"):]); ft != nil {
					if mt, ok := t.resolve(ft).Underlying().(*types.Map); ok {
						t.wMap(l, mt)
					}
				}
				continue
			}
			if c2, s, ok := t.guardComp(mon, tname, g); ok {
				t.w(l, c2, s)
			}
		}
	}
}

// ghostAt runs the contract's ghost statements declared for a program point kind
// ("after acquire", "before unlock").
func (t *FnTrans) ghostAt(where string) {
	if t.ct == nil {
		return
	}
	// "before call X #n": the n-th call site of X in translation (reverse post-order) order
	nth := 0
	if where == "after select" {
		nth = t.count("ghostsite:" + where) // ordinal in translation (reverse post-order) order
	}
	if strings.HasPrefix(where, "before call ") || strings.HasPrefix(where, "after call ") {
		nth = t.count("ghostsite:" + where)
		if o, ok := t.siteOrdinal(where[strings.Index(where, "call ")+5:]); ok {
			nth = o // ordinal in source order
		}
		if os.Getenv("GOVC_DEBUG_TP") != "" {
			fmt.Fprintf(os.Stderr, "ghostAt %q nth=%d at %s\n", where, nth, t.eng.prog.Fset.Position(t.curInstr.Pos()))
		}
	}
	for _, g := range t.ct.Ghost {
		if g.Arg == where || (nth > 0 && g.Arg == fmt.Sprintf("%s #%d", where, nth)) {
			if t.ghostHit == nil {
				t.ghostHit = map[*Clause]bool{}
			}
			t.ghostHit[g] = true
			env := t.selfEnv(t.cur, t.entry)
			env.local = func(name string) (SVal, bool) { return t.localHere(name) }
			if t.lastSelIdx != "" {
				env.vars["selindex"] = SVal{S: t.lastSelIdx, Sort: "Int"}
			}
			if t.lastCallRes != nil {
				// "ghost after call X": result names the value the call returned (result.0, ... for tuples: r0, r1)
				if v, ok := t.vals[t.lastCallRes]; ok {
					if len(v.Tup) > 0 {
						if tup, isT := t.resolve(t.lastCallRes.Type()).(*types.Tuple); isT {
							for i, tv := range v.Tup {
								if i < tup.Len() {
									T := t.resolve(tup.At(i).Type())
									env.vars[fmt.Sprintf("r%d", i)] = SVal{S: tv.S, T: T, Sort: t.sortOf(T)}
								}
							}
						}
					} else if v.S != "" {
						T := t.resolve(t.lastCallRes.Type())
						env.vars["result"] = SVal{S: v.S, T: T, Sort: t.sortOf(T)}
					}
				}
			}
			// "ghost before/after call X": arg0, arg1, ... name the actual arguments of the call (for method
			// calls arg0 is the receiver)
			if t.lastCall != nil && strings.Contains(where, " call ") {
				callArgs := t.lastCall.Args
				if t.lastCall.IsInvoke() {
					callArgs = append([]ssa.Value{t.lastCall.Value}, callArgs...) // interface method call: arg0 is the receiver
				}
				for i, a := range callArgs {
					if v, ok := t.vals[a]; ok || isConst(a) {
						if !ok {
							v = t.val(a)
						}
						if s := t.termOfOpt(v); s != "" {
							T := t.resolve(a.Type())
							sv := SVal{S: s, T: T, Sort: t.sortOf(T)}
							if v.Fn != nil {
								vv := v
								sv.FnV = &vv // a function value known statically (isfunc)
							}
							env.vars[fmt.Sprintf("arg%d", i)] = sv
						}
					}
				}
			}
			t.ghostUpdate(g, env)
		}
	}
}

// oweStmt: `owe <cond field> if <expr>`: this thread promises a notification on the receiver's
// condition variable (must be executed while the monitor lock is held).
func (t *FnTrans) oweStmt(g *Clause, env *Env) {
	rest := strings.TrimSpace(strings.TrimPrefix(g.Text, "owe "))
	field, cond := rest, "true"
	if i := strings.Index(rest, " if "); i >= 0 {
		field, cond = strings.TrimSpace(rest[:i]), strings.TrimSpace(rest[i+4:])
	}
	ce, err := ParseExpr(cond)
	if err != nil {
		t.fail("%s:%d: %v", g.File, g.Line, err)
	}
	recv, ok := t.paramVals[t.recvName]
	if !ok {
		t.fail("%s:%d: owe outside a method", g.File, g.Line)
	}
	RT := t.paramTypes[t.recvName]
	n, ok := derefNamed(RT)
	if !ok {
		t.fail("%s:%d: owe: receiver is not a named type", g.File, g.Line)
	}
	tname := tshort(typeName(n.Origin()))
	mon := t.condMonitor(tname, field)
	if mon == nil {
		t.fail("%s:%d: owe: %s.%s is not a declared condition variable", g.File, g.Line, tname, field)
	}
	_, oc, dc := t.condComps(tname, field)
	lc := t.comp("L."+tname+"."+mon.mon.Lock, "(Array Int Int)")
	t.oblige("owe.held", eq(app("select", t.get(lc), recv.S), "2"), "a notification debt is recorded while the monitor lock is held")
	env.st = t.cur
	c := env.evalBool(ce)
	o := app("select", t.get(oc), recv.S)
	d := app("select", t.get(dc), recv.S)
	t.set(oc, app("store", t.get(oc), recv.S, ite(c, app("+", o, "1"), o)))
	t.set(dc, app("store", t.get(dc), recv.S, ite(c, app("+", d, "1"), d)))
}

// tokenStmt: `take <token> [if e]` / `give <token> [if e]` on the receiver's monitor.
func (t *FnTrans) tokenStmt(g *Clause, env *Env) {
	f := strings.Fields(g.Text)
	kind, name := f[0], f[1]
	cond := "true"
	if i := strings.Index(g.Text, " if "); i >= 0 {
		cond = strings.TrimSpace(g.Text[i+4:])
	}
	ce, err := ParseExpr(cond)
	if err != nil {
		t.fail("%s:%d: %v", g.File, g.Line, err)
	}
	recv, ok := t.paramVals[t.recvName]
	if !ok {
		t.fail("%s:%d: token statement outside a method", g.File, g.Line)
	}
	n, ok := derefNamed(t.paramTypes[t.recvName])
	if !ok {
		t.fail("%s:%d: token statement: receiver is not a named type", g.File, g.Line)
	}
	tname := tshort(typeName(n.Origin()))
	var mon *monRef
	for _, ts := range []*TypeSpec{t.eng.specs.Types[typeName(n.Origin())]} {
		if ts == nil {
			continue
		}
		for _, m := range ts.Monitors {
			for _, tk := range m.Tokens {
				if tk == name {
					mon = &monRef{ts: ts, mon: m}
				}
			}
		}
	}
	if mon == nil {
		t.fail("%s:%d: %s is not a declared token of %s", g.File, g.Line, name, tname)
	}
	sh, mine := t.tokComps(tname, name)
	lc := t.comp("L."+tname+"."+mon.mon.Lock, "(Array Int Int)")
	t.oblige("token.held", eq(app("select", t.get(lc), recv.S), "2"), "tokens change hands only while the monitor lock is held")
	env.st = t.cur
	c := env.evalBool(ce)
	s0 := app("select", t.get(sh), recv.S)
	m0 := app("select", t.get(mine), recv.S)
	d := "1"
	if kind == "give" {
		t.oblige("token.give", implies(c, app(">=", m0, "1")), "a token can only be given up by the thread that holds it ("+name+")")
		d = "(- 1)"
	}
	t.set(sh, app("store", t.get(sh), recv.S, ite(c, app("+", s0, d), s0)))
	t.set(mine, app("store", t.get(mine), recv.S, ite(c, app("+", m0, d), m0)))
}

// debtsExit: a function returns holding exactly the notification debts it was called with
// (unless its contract says otherwise: opt debts-change).
func (t *FnTrans) debtsExit() {
	if t.ct != nil && t.ct.Opts["debts-change"] != "" {
		return
	}
	for c, s := range t.compSort {
		if !strings.HasPrefix(c, "TD.") || s == "" {
			continue
		}
		now, ok := t.cur.H[c]
		if !ok {
			continue
		}
		was := t.entryVersion(c)
		if now == was {
			continue
		}
		t.oblige("owed.exit", "(forall ((d$r Int)) (=> (< d$r "+q("$alloc@0")+") (= (select "+now+" d$r) (select "+was+" d$r))))", "every promised notification was delivered before returning, for every object that existed at entry ("+c+")")
	}
}

// tpEvent records an acquire / release of a lock component at the current instruction (deferred calls
// count at the point where the defers run).
func (t *FnTrans) tpEvent(comp string, acq, rel bool) {
	at := t.curInstr
	if t.deferSite != nil {
		at = t.deferSite
	}
	if at == nil {
		return
	}
	if os.Getenv("GOVC_DEBUG_TP") != "" {
		fmt.Fprintf(os.Stderr, "tp %s %s acq=%v rel=%v at %s\n", t.key, comp, acq, rel, t.eng.prog.Fset.Position(at.Pos()))
	}
	t.tpEvents = append(t.tpEvents, tpEvent{at: at, comp: comp, acq: acq, rel: rel})
}

// twoPhaseCheck (opt twophase): an operation that is claimed to be atomic takes each lock at most in one
// phase - on no control-flow path is a lock component acquired (directly or by a callee that needs it
// free) after it was released earlier in the same call. The check is over the control-flow graph (all
// syntactic paths, lock identity by component), i.e. conservative.
func (t *FnTrans) twoPhaseCheck() {
	if t.ct == nil || t.ct.Opts["twophase"] == "" {
		return
	}
	only := t.ct.Opts["twophase"] // "opt twophase <lockfield>": only that lock
	if only == "true" {
		only = ""
	}
	reach := func(a, b ssa.Instruction) bool { // can b execute after a?
		ba, bb := a.Block(), b.Block()
		idx := func(in ssa.Instruction) int {
			for i, x := range in.Block().Instrs {
				if x == in {
					return i
				}
			}
			return -1
		}
		if ba == bb && idx(a) < idx(b) {
			return true
		}
		// block reachability through successors (covers loops: ba may reach itself)
		seen := map[*ssa.BasicBlock]bool{}
		var work []*ssa.BasicBlock
		work = append(work, ba.Succs...)
		for len(work) > 0 {
			x := work[len(work)-1]
			work = work[:len(work)-1]
			if seen[x] {
				continue
			}
			seen[x] = true
			if x == bb {
				return true
			}
			work = append(work, x.Succs...)
		}
		return false
	}
	bad := ""
	for _, r := range t.tpEvents {
		if !r.rel {
			continue
		}
		if only != "" && !strings.HasSuffix(r.comp, "."+only) {
			continue
		}
		for _, a := range t.tpEvents {
			if !a.acq || a.comp != r.comp {
				continue
			}
			if (a.at != r.at && reach(r.at, a.at)) || (a.at == r.at && reach(r.at, a.at)) {
				bad = fmt.Sprintf("lock %s is acquired at %s after it was released at %s", r.comp, t.eng.prog.Fset.Position(a.at.Pos()), t.eng.prog.Fset.Position(r.at.Pos()))
			}
		}
	}
	goal := "true"
	note := "two-phase locking: no lock is taken again after it was released within one call"
	if bad != "" {
		goal = "false"
		note += " (" + bad + ")"
	}
	// a property of the control-flow graph: no path condition, no hypotheses
	o := &Obligation{Name: t.oblPrefix() + "::lock.twophase", Kind: "lock.twophase", NLines: 0, Guard: "true", Goal: goal, Expect: "unsat", Fn: t.oblPrefix(), Note: note, Pos: t.eng.prog.Fset.Position(t.fn.Pos())}
	t.obls = append(t.obls, o)
}

// unguardedRead: `opt unguarded-read f, g`: reads of these guarded fields (and of their map contents) without
// the lock are accepted in this function on the strength of an argument outside the lock discipline; recorded
// as an assumption.
func (t *FnTrans) unguardedRead(field string) bool {
	if t.ct == nil {
		return false
	}
	for _, f := range strings.Split(t.ct.Opts["unguarded-read"], ",") {
		if strings.TrimSpace(f) == field {
			t.abstr["assumed: unlocked reads of "+field+" in "+t.oblPrefix()+" are race-free (argument outside the lock discipline, see the contract file)"] = true
			return true
		}
	}
	return false
}

// siteOrdinal: the ordinal (1-based, in source order) of the current call instruction among the call sites of
// the same callee in this function. Callee names as used by "ghost before call <name>": Type.Method / Func for
// static callees, Type#field for calls of function-typed fields.
func (t *FnTrans) siteOrdinal(name string) (int, bool) {
	if t.curInstr == nil {
		return 0, false
	}
	if t.siteOrd == nil {
		t.siteOrd = map[ssa.Instruction]int{}
		byName := map[string][]ssa.Instruction{}
		for _, b := range t.fn.Blocks {
			for _, in := range b.Instrs {
				var c *ssa.CallCommon
				switch x := in.(type) {
				case *ssa.Call:
					c = &x.Call
				case *ssa.Defer:
					c = &x.Call
				case *ssa.Go:
					c = &x.Call
				default:
					continue
				}
				n := ""
				if f := c.StaticCallee(); f != nil {
					n = fnKey(f)
				} else if u, ok := c.Value.(*ssa.UnOp); ok {
					if fa, ok := u.X.(*ssa.FieldAddr); ok {
						if pt, ok := t.resolve(fa.X.Type()).Underlying().(*types.Pointer); ok {
							if nt, ok := t.resolve(pt.Elem()).(*types.Named); ok {
								if st, ok := nt.Underlying().(*types.Struct); ok {
									n = typeName(nt.Origin()) + "#" + st.Field(fa.Field).Name()
								}
							}
						}
					}
				}
				if n == "" {
					continue
				}
				if i := strings.LastIndex(n, "/"); i >= 0 {
					n = n[i+1:]
				}
				if i := strings.Index(n, "."); i >= 0 {
					n = n[i+1:]
				}
				byName[n] = append(byName[n], in)
			}
		}
		for _, ins := range byName {
			sort.SliceStable(ins, func(i, j int) bool { return ins[i].Pos() < ins[j].Pos() })
			for i, in := range ins {
				t.siteOrd[in] = i + 1
			}
		}
	}
	o, ok := t.siteOrd[t.curInstr]
	return o, ok
}
