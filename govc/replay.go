package main

import (
	"bytes"
	"context"
	"encoding/json"
	"fmt"
	"os"
	"os/exec"
	"path/filepath"
	"regexp"
	"strings"
	"time"
)

// ReplayResult: outcome of running a solver counterexample against the real code.
type ReplayResult struct {
	Confirmed bool   `json:"confirmed_on_real_code"`
	Summary   string `json:"summary"`
	Module    string `json:"module"`
	Pkg       string `json:"pkg"`
	TestFile  string `json:"test_source"`
	Cmd       string `json:"cmd"`
	Output    string `json:"output"`
}

type replayGen func(o *Obligation) (module, pkgDir, src string, ok bool)

var replayGens = map[string]replayGen{}

// runReplay builds an in-package test from the model and runs it with -overlay (nothing is
// written into the repository). The test must FAIL iff the real code violates the property on
// the model's input (oracles are independent of the contracts).
func runReplay(kind string, o *Obligation, repo string, engines []*Engine) *ReplayResult {
	g := replayGens[kind]
	if g == nil {
		return nil
	}
	module, pkgDir, src, ok := g(o)
	if !ok {
		return nil
	}
	return execReplay(repo, module, pkgDir, src)
}

func execReplay(repo, module, pkgDir, src string) *ReplayResult {
	tmp, err := os.MkdirTemp("", "govc-replay-")
	if err != nil {
		return &ReplayResult{Summary: "cannot create temp dir: " + err.Error()}
	}
	defer os.RemoveAll(tmp)
	tf := filepath.Join(tmp, "zz_replay_test.go")
	os.WriteFile(tf, []byte(src), 0o644)
	target := filepath.Join(repo, module, pkgDir, "zz_verif_replay_test.go")
	ov, _ := json.Marshal(map[string]any{"Replace": map[string]string{target: tf}})
	ovf := filepath.Join(tmp, "ov.json")
	os.WriteFile(ovf, ov, 0o644)
	ctx, cancel := context.WithTimeout(context.Background(), 180*time.Second)
	defer cancel()
	args := []string{"test", "-overlay", ovf, "-tags", "verif", "-vet=off", "-count=1", "-timeout", "60s", "-run", "TestVerifReplay", "./" + pkgDir}
	cmd := exec.CommandContext(ctx, "go", args...)
	cmd.Dir = filepath.Join(repo, module)
	cmd.Env = goEnv()
	var buf bytes.Buffer
	cmd.Stdout, cmd.Stderr = &buf, &buf
	err = cmd.Run()
	out := buf.String()
	r := &ReplayResult{Module: module, Pkg: pkgDir, TestFile: src, Cmd: "cd " + cmd.Dir + " && go " + strings.Join(args, " "), Output: truncate(out, 3000)}
	switch {
	case strings.Contains(out, "REPLAY-VIOLATION"):
		r.Confirmed = true
		m := regexp.MustCompile(`REPLAY-VIOLATION[^\n]*`).FindString(out)
		r.Summary = m
	case err == nil:
		r.Summary = "the real code behaves correctly on the model's input (counterexample not reproduced)"
	default:
		r.Summary = "replay did not run to a verdict: " + truncate(strings.TrimSpace(out), 300)
	}
	return r
}

func runReplayFile(path, repo string) int {
	b, err := os.ReadFile(path)
	if err != nil {
		fmt.Fprintln(os.Stderr, err)
		return 2
	}
	var doc struct {
		Property   string        `json:"property"`
		Obligation string        `json:"obligation"`
		Reason     string        `json:"reason"`
		Replay     *ReplayResult `json:"replay"`
		Output     string        `json:"solver_output"`
	}
	if err := json.Unmarshal(b, &doc); err != nil {
		fmt.Fprintln(os.Stderr, err)
		return 2
	}
	fmt.Printf("property %s obligation %s\nreason: %s\n", doc.Property, doc.Obligation, doc.Reason)
	if doc.Replay == nil || doc.Replay.TestFile == "" {
		fmt.Println("no executable replay for this obligation (no-failing-input-found); verifier output:")
		fmt.Println(doc.Output)
		return 1
	}
	r := execReplay(repo, doc.Replay.Module, doc.Replay.Pkg, doc.Replay.TestFile)
	fmt.Println(r.Summary)
	fmt.Println(r.Output)
	if r.Confirmed {
		return 1
	}
	return 0
}

// ---------- C19 ----------

func init() { replayGens["c19"] = replayC19 }

var reC19 = regexp.MustCompile(`^safemath\.(\w+)(?:\[(\w+)\])?::`)

func replayC19(o *Obligation) (string, string, string, bool) {
	m := reC19.FindStringSubmatch(o.Name)
	if m == nil {
		return "", "", "", false
	}
	fn, T := m[1], m[2]
	get := func(n string) (string, bool) { v, ok := o.Model[n]; return v, ok }
	var call, exact, errWant string
	typ := T
	switch fn {
	case "SafeAdd", "SafeSub", "SafeMul", "SafeDiv":
		x, ok1 := get("x")
		y, ok2 := get("y")
		if !ok1 || !ok2 {
			return "", "", "", false
		}
		call = fmt.Sprintf("%s[%s](%s(%s), %s(%s))", fn, T, T, litFor(T, x), T, litFor(T, y))
		op := map[string]string{"SafeAdd": "Add", "SafeSub": "Sub", "SafeMul": "Mul", "SafeDiv": "Quo"}[fn]
		exact = fmt.Sprintf("bx, by := bigOf(%q), bigOf(%q)\n\tvar exact *big.Int\n\tif %v && by.Sign() == 0 { exact = nil } else { exact = new(big.Int).%s(bx, by) }", x, y, fn == "SafeDiv", op)
		errWant = "ErrIntegerOverflow"
	case "SafeLeftShift":
		v, ok1 := get("val")
		s, ok2 := get("shift")
		if !ok1 || !ok2 {
			return "", "", "", false
		}
		call = fmt.Sprintf("SafeLeftShift[%s](%s(%s), uint8(%s))", T, T, litFor(T, v), s)
		exact = fmt.Sprintf("exact := new(big.Int).Lsh(bigOf(%q), uint(%s))", v, s)
	case "SafeMulUint64", "SafeMulInt64":
		x, ok1 := get("x")
		y, ok2 := get("y")
		if !ok1 || !ok2 {
			return "", "", "", false
		}
		typ = "uint64"
		if fn == "SafeMulInt64" {
			typ = "int64"
		}
		call = fmt.Sprintf("%s(%s(%s), %s(%s))", fn, typ, litFor(typ, x), typ, litFor(typ, y))
		exact = fmt.Sprintf("exact := new(big.Int).Mul(bigOf(%q), bigOf(%q))", x, y)
	case "Safe64MulDiv":
		x, ok1 := get("x")
		y, ok2 := get("y")
		d, ok3 := get("div")
		if !ok1 || !ok2 || !ok3 {
			return "", "", "", false
		}
		typ = "uint64"
		call = fmt.Sprintf("Safe64MulDiv(uint64(%s), uint64(%s), uint64(%s))", x, y, d)
		exact = fmt.Sprintf("var exact *big.Int\n\tif bigOf(%q).Sign() != 0 { exact = new(big.Int).Quo(new(big.Int).Mul(bigOf(%q), bigOf(%q)), bigOf(%q)) }", d, x, y, d)
	default:
		return "", "", "", false
	}
	_ = errWant
	src := fmt.Sprintf(`package safemath

import (
	"errors"
	"math/big"
	"testing"
)

func bigOf(s string) *big.Int { n, _ := new(big.Int).SetString(s, 10); return n }

// Oracle: arbitrary-precision arithmetic (independent of the contracts).
func TestVerifReplay(t *testing.T) {
	var r %s
	var err error
	func() {
		defer func() {
			if p := recover(); p != nil {
				t.Fatalf("REPLAY-VIOLATION %s panicked: %%v", p)
			}
		}()
		r, err = %s
	}()
	%s
	var zero %s
	lo, hi := new(big.Int), new(big.Int)
	if ^zero < zero { // signed
		bits := uint(0)
		for x := ^zero; x != 0; x <<= 1 { bits++ }
		_ = bits
	}
	lo, hi = rangeOf(zero)
	switch {
	case exact == nil:
		if !errors.Is(err, ErrIntegerDivisionByZero) {
			t.Fatalf("REPLAY-VIOLATION %s: division by zero must give ErrIntegerDivisionByZero, got (%%v, %%v)", r, err)
		}
	case exact.Cmp(lo) >= 0 && exact.Cmp(hi) <= 0:
		if err != nil || big.NewInt(0).SetInt64(0).Cmp(big.NewInt(0)) != 0 || toBig(r).Cmp(exact) != 0 {
			t.Fatalf("REPLAY-VIOLATION %s: exact result %%v is representable but got (%%v, %%v)", exact, r, err)
		}
	default:
		if !errors.Is(err, ErrIntegerOverflow) {
			t.Fatalf("REPLAY-VIOLATION %s: exact result %%v is not representable but got (%%v, %%v)", exact, r, err)
		}
	}
}

func toBig[T Integer](v T) *big.Int {
	var zero T
	if ^zero < zero {
		return big.NewInt(int64(v))
	}
	return new(big.Int).SetUint64(uint64(v))
}

func rangeOf[T Integer](zero T) (*big.Int, *big.Int) {
	bits := uint(0)
	for x := ^T(0); x != 0; { bits++; x = T(uint64(x) >> 1); if bits >= 64 { break } }
	// count the type's width by shifting 1 until it wraps to zero
	w := uint(0)
	for x := T(1); x != 0; x <<= 1 { w++ }
	if ^zero < zero {
		h := new(big.Int).Lsh(big.NewInt(1), w-1)
		return new(big.Int).Neg(h), new(big.Int).Sub(h, big.NewInt(1))
	}
	return big.NewInt(0), new(big.Int).Sub(new(big.Int).Lsh(big.NewInt(1), w), big.NewInt(1))
}
`, typ, call, call, exact, typ, call, call, call)
	return "core", "safemath", src, true
}

// litFor renders a (possibly negative, possibly huge) decimal as a Go constant expression of type T.
func litFor(T, v string) string {
	if strings.HasPrefix(v, "-") {
		// MinInt64 cannot be written as -(9223372036854775808) in int64 constant arithmetic? It can: constant -9223372036854775808 is fine.
		return v
	}
	return v
}

// ---------- C07 ----------
// The obligations of Sequence speak about ghost history, so the model is not an input; the replay
// runs the operation histories that the failed obligation's function takes part in (Next / crash =
// abandon the object / Release / restart) on the real in-memory store and checks that no number is
// handed out twice.

func init() { replayGens["c07"] = replayC07 }

func replayC07(o *Obligation) (string, string, string, bool) {
	if !strings.HasPrefix(o.Name, "kvstore.Sequence.") && !strings.HasPrefix(o.Name, "kvstore.NewSequence") {
		return "", "", "", false
	}
	src := `package kvstore_test

import (
	"errors"
	"testing"

	"github.com/iotaledger/hive.go/kvstore"
	"github.com/iotaledger/hive.go/kvstore/mapdb"
)

// faulty fails the next Set (once) when armed: every store call is a possible failure point.
type faulty struct {
	kvstore.KVStore
	failSet bool
}

func (f *faulty) Set(k kvstore.Key, v kvstore.Value) error {
	if f.failSet {
		f.failSet = false
		return errors.New("injected store failure")
	}
	return f.KVStore.Set(k, v)
}

// scripts: N = Next on the current object, R = Release, C = crash/restart (abandon the object, open a
// new one), F = the next store write fails
func TestVerifReplay(t *testing.T) {
	scripts := []string{"NNNCN", "NCRCN", "NNRNCN", "CRCN", "NNNRCRN", "NCNRNCRCNN", "NNNNNNCNRCN", "RNCRN",
		"FNNNCN", "NNNFNNNCN", "NFRNCN", "NNFRNCNN", "FNFNNRCN"}
	for _, interval := range []uint64{1, 3, 10} {
		for _, sc := range scripts {
			store := &faulty{KVStore: mapdb.NewMapDB()}
			seen := map[uint64]bool{}
			seq, _ := kvstore.NewSequence(store, []byte("k"), interval)
			var last uint64
			first := true
			for i, op := range sc {
				switch op {
				case 'N':
					v, err := seq.Next()
					if err != nil {
						continue
					}
					if seen[v] || (!first && v <= last) {
						t.Fatalf("REPLAY-VIOLATION Sequence handed out %d twice / not increasing (script %s step %d, interval %d)", v, sc, i, interval)
					}
					seen[v], last, first = true, v, false
				case 'R':
					_ = seq.Release()
				case 'F':
					store.failSet = true
				case 'C':
					seq, _ = kvstore.NewSequence(store, []byte("k"), interval)
				}
			}
		}
	}
}
`
	return "kvstore", ".", src, true
}
