package main

import (
	"bytes"
	"context"
	"encoding/json"
	"fmt"
	"os"
	"os/exec"
	"path/filepath"
	"regexp"
	"strings"
	"time"
)

// ReplayResult: outcome of running a solver counterexample against the real code.
type ReplayResult struct {
	Confirmed bool   `json:"confirmed_on_real_code"`
	Summary   string `json:"summary"`
	Module    string `json:"module"`
	Pkg       string `json:"pkg"`
	TestFile  string `json:"test_source"`
	Cmd       string `json:"cmd"`
	Output    string `json:"output"`
}

type replayGen func(o *Obligation) (module, pkgDir, src string, ok bool)

var replayGens = map[string]replayGen{}

// runReplay builds an in-package test from the model and runs it with -overlay (nothing is
// written into the repository). The test must FAIL iff the real code violates the property on
// the model's input (oracles are independent of the contracts).
func runReplay(kind string, o *Obligation, repo string, engines []*Engine) *ReplayResult {
	// several generators may be named ("c14,c13"): the first one that has a scenario for the obligation is used
	for _, k := range strings.Split(kind, ",") {
		g := replayGens[strings.TrimSpace(k)]
		if g == nil {
			continue
		}
		if module, pkgDir, src, ok := g(o); ok {
			return execReplay(repo, module, pkgDir, src)
		}
	}
	return nil
}

func execReplay(repo, module, pkgDir, src string) *ReplayResult {
	tmp, err := os.MkdirTemp("", "govc-replay-")
	if err != nil {
		return &ReplayResult{Summary: "cannot create temp dir: " + err.Error()}
	}
	defer os.RemoveAll(tmp)
	tf := filepath.Join(tmp, "zz_replay_test.go")
	os.WriteFile(tf, []byte(src), 0o644)
	target := filepath.Join(repo, module, pkgDir, "zz_verif_replay_test.go")
	ov, _ := json.Marshal(map[string]any{"Replace": map[string]string{target: tf}})
	ovf := filepath.Join(tmp, "ov.json")
	os.WriteFile(ovf, ov, 0o644)
	ctx, cancel := context.WithTimeout(context.Background(), 180*time.Second)
	defer cancel()
	args := []string{"test", "-overlay", ovf, "-tags", "verif", "-vet=off", "-count=1", "-timeout", "60s", "-run", "TestVerifReplay", "./" + pkgDir}
	raceRun := strings.Contains(src, "// govc:race")
	if raceRun {
		// the replay demonstrates a data race: run it under the Go race detector
		args = append([]string{"test", "-race"}, args[1:]...)
	}
	cmd := exec.CommandContext(ctx, "go", args...)
	cmd.Dir = filepath.Join(repo, module)
	cmd.Env = goEnv()
	var buf bytes.Buffer
	cmd.Stdout, cmd.Stderr = &buf, &buf
	err = cmd.Run()
	out := buf.String()
	r := &ReplayResult{Module: module, Pkg: pkgDir, TestFile: src, Cmd: "cd " + cmd.Dir + " && go " + strings.Join(args, " "), Output: truncate(out, 3000)}
	switch {
	case raceRun && strings.Contains(out, "WARNING: DATA RACE"):
		r.Confirmed = true
		var frames []string
		for _, l := range strings.Split(out[strings.Index(out, "WARNING: DATA RACE"):], "\n") {
			l = strings.TrimSpace(l)
			if strings.HasPrefix(l, "github.com/iotaledger/hive.go/") && len(frames) < 4 {
				frames = append(frames, l)
			}
		}
		r.Summary = "REPLAY-VIOLATION data race reported by the Go race detector: " + strings.Join(frames, " <- ")
	case strings.Contains(out, "REPLAY-VIOLATION"):
		r.Confirmed = true
		m := regexp.MustCompile(`REPLAY-VIOLATION[^\n]*`).FindString(out)
		r.Summary = m
	case strings.Contains("\n"+out, "\npanic: ") && !strings.Contains(out, "test timed out") && !strings.Contains(out, "[build failed]"):
		// the library itself panicked (e.g. in one of its goroutines) while the replay scenario ran: the scenarios are
		// panic-free on the unchanged tree
		r.Confirmed = true
		r.Summary = "REPLAY-VIOLATION the real code panicked during the replay scenario: " + regexp.MustCompile(`panic: [^\n]*`).FindString(out)
	case err == nil:
		r.Summary = "the real code behaves correctly on the model's input (counterexample not reproduced)"
	default:
		r.Summary = "replay did not run to a verdict: " + truncate(strings.TrimSpace(out), 300)
	}
	return r
}

func runReplayFile(path, repo string) int {
	b, err := os.ReadFile(path)
	if err != nil {
		fmt.Fprintln(os.Stderr, err)
		return 2
	}
	var doc struct {
		Property   string        `json:"property"`
		Obligation string        `json:"obligation"`
		Reason     string        `json:"reason"`
		Replay     *ReplayResult `json:"replay"`
		Output     string        `json:"solver_output"`
	}
	if err := json.Unmarshal(b, &doc); err != nil {
		fmt.Fprintln(os.Stderr, err)
		return 2
	}
	fmt.Printf("property %s obligation %s\nreason: %s\n", doc.Property, doc.Obligation, doc.Reason)
	if doc.Replay == nil || doc.Replay.TestFile == "" {
		fmt.Println("no executable replay for this obligation (no-failing-input-found); verifier output:")
		fmt.Println(doc.Output)
		return 1
	}
	r := execReplay(repo, doc.Replay.Module, doc.Replay.Pkg, doc.Replay.TestFile)
	fmt.Println(r.Summary)
	fmt.Println(r.Output)
	if r.Confirmed {
		return 1
	}
	return 0
}

// ---------- C19 ----------

func init() { replayGens["c19"] = replayC19 }

var reC19 = regexp.MustCompile(`^safemath\.(\w+)(?:\[(\w+)\])?::`)

func replayC19(o *Obligation) (string, string, string, bool) {
	m := reC19.FindStringSubmatch(o.Name)
	if m == nil {
		return "", "", "", false
	}
	fn, T := m[1], m[2]
	get := func(n string) (string, bool) { v, ok := o.Model[n]; return v, ok }
	var call, exact, errWant string
	typ := T
	switch fn {
	case "SafeAdd", "SafeSub", "SafeMul", "SafeDiv":
		x, ok1 := get("x")
		y, ok2 := get("y")
		if !ok1 || !ok2 {
			return "", "", "", false
		}
		call = fmt.Sprintf("%s[%s](%s(%s), %s(%s))", fn, T, T, litFor(T, x), T, litFor(T, y))
		op := map[string]string{"SafeAdd": "Add", "SafeSub": "Sub", "SafeMul": "Mul", "SafeDiv": "Quo"}[fn]
		exact = fmt.Sprintf("bx, by := bigOf(%q), bigOf(%q)\n\tvar exact *big.Int\n\tif %v && by.Sign() == 0 { exact = nil } else { exact = new(big.Int).%s(bx, by) }", x, y, fn == "SafeDiv", op)
		errWant = "ErrIntegerOverflow"
	case "SafeLeftShift":
		v, ok1 := get("val")
		s, ok2 := get("shift")
		if !ok1 || !ok2 {
			return "", "", "", false
		}
		call = fmt.Sprintf("SafeLeftShift[%s](%s(%s), uint8(%s))", T, T, litFor(T, v), s)
		exact = fmt.Sprintf("exact := new(big.Int).Lsh(bigOf(%q), uint(%s))", v, s)
	case "SafeMulUint64", "SafeMulInt64":
		x, ok1 := get("x")
		y, ok2 := get("y")
		if !ok1 || !ok2 {
			return "", "", "", false
		}
		typ = "uint64"
		if fn == "SafeMulInt64" {
			typ = "int64"
		}
		call = fmt.Sprintf("%s(%s(%s), %s(%s))", fn, typ, litFor(typ, x), typ, litFor(typ, y))
		exact = fmt.Sprintf("exact := new(big.Int).Mul(bigOf(%q), bigOf(%q))", x, y)
	case "Safe64MulDiv":
		x, ok1 := get("x")
		y, ok2 := get("y")
		d, ok3 := get("div")
		if !ok1 || !ok2 || !ok3 {
			return "", "", "", false
		}
		typ = "uint64"
		call = fmt.Sprintf("Safe64MulDiv(uint64(%s), uint64(%s), uint64(%s))", x, y, d)
		exact = fmt.Sprintf("var exact *big.Int\n\tif bigOf(%q).Sign() != 0 { exact = new(big.Int).Quo(new(big.Int).Mul(bigOf(%q), bigOf(%q)), bigOf(%q)) }", d, x, y, d)
	default:
		return "", "", "", false
	}
	_ = errWant
	src := fmt.Sprintf(`package safemath

import (
	"errors"
	"math/big"
	"testing"
)

func bigOf(s string) *big.Int { n, _ := new(big.Int).SetString(s, 10); return n }

// Oracle: arbitrary-precision arithmetic (independent of the contracts).
func TestVerifReplay(t *testing.T) {
	var r %s
	var err error
	func() {
		defer func() {
			if p := recover(); p != nil {
				t.Fatalf("REPLAY-VIOLATION %s panicked: %%v", p)
			}
		}()
		r, err = %s
	}()
	%s
	var zero %s
	lo, hi := new(big.Int), new(big.Int)
	if ^zero < zero { // signed
		bits := uint(0)
		for x := ^zero; x != 0; x <<= 1 { bits++ }
		_ = bits
	}
	lo, hi = rangeOf(zero)
	switch {
	case exact == nil:
		if !errors.Is(err, ErrIntegerDivisionByZero) {
			t.Fatalf("REPLAY-VIOLATION %s: division by zero must give ErrIntegerDivisionByZero, got (%%v, %%v)", r, err)
		}
	case exact.Cmp(lo) >= 0 && exact.Cmp(hi) <= 0:
		if err != nil || big.NewInt(0).SetInt64(0).Cmp(big.NewInt(0)) != 0 || toBig(r).Cmp(exact) != 0 {
			t.Fatalf("REPLAY-VIOLATION %s: exact result %%v is representable but got (%%v, %%v)", exact, r, err)
		}
	default:
		if !errors.Is(err, ErrIntegerOverflow) {
			t.Fatalf("REPLAY-VIOLATION %s: exact result %%v is not representable but got (%%v, %%v)", exact, r, err)
		}
	}
}

func toBig[T Integer](v T) *big.Int {
	var zero T
	if ^zero < zero {
		return big.NewInt(int64(v))
	}
	return new(big.Int).SetUint64(uint64(v))
}

func rangeOf[T Integer](zero T) (*big.Int, *big.Int) {
	bits := uint(0)
	for x := ^T(0); x != 0; { bits++; x = T(uint64(x) >> 1); if bits >= 64 { break } }
	// count the type's width by shifting 1 until it wraps to zero
	w := uint(0)
	for x := T(1); x != 0; x <<= 1 { w++ }
	if ^zero < zero {
		h := new(big.Int).Lsh(big.NewInt(1), w-1)
		return new(big.Int).Neg(h), new(big.Int).Sub(h, big.NewInt(1))
	}
	return big.NewInt(0), new(big.Int).Sub(new(big.Int).Lsh(big.NewInt(1), w), big.NewInt(1))
}
`, typ, call, call, exact, typ, call, call, call)
	return "core", "safemath", src, true
}

// litFor renders a (possibly negative, possibly huge) decimal as a Go constant expression of type T.
func litFor(T, v string) string {
	if strings.HasPrefix(v, "-") {
		// MinInt64 cannot be written as -(9223372036854775808) in int64 constant arithmetic? It can: constant -9223372036854775808 is fine.
		return v
	}
	return v
}

// ---------- C07 ----------
// The obligations of Sequence speak about ghost history, so the model is not an input; the replay
// runs the operation histories that the failed obligation's function takes part in (Next / crash =
// abandon the object / Release / restart) on the real in-memory store and checks that no number is
// handed out twice.

func init() { replayGens["c07"] = replayC07 }

func replayC07(o *Obligation) (string, string, string, bool) {
	if !strings.HasPrefix(o.Name, "kvstore.Sequence.") && !strings.HasPrefix(o.Name, "kvstore.NewSequence") {
		return "", "", "", false
	}
	src := `package kvstore_test

import (
	"encoding/binary"
	"errors"
	"sync/atomic"
	"testing"
	"time"

	"github.com/iotaledger/hive.go/kvstore"
	"github.com/iotaledger/hive.go/kvstore/mapdb"
)

// faulty fails the next Set (once) when armed: every store call is a possible failure point.
type faulty struct {
	kvstore.KVStore
	failSet bool
}

func (f *faulty) Set(k kvstore.Key, v kvstore.Value) error {
	if f.failSet {
		f.failSet = false
		return errors.New("injected store failure")
	}
	return f.KVStore.Set(k, v)
}

// scripts: N = Next on the current object, R = Release, C = crash/restart (abandon the object, open a
// new one), F = the next store write fails
func TestVerifReplay(t *testing.T) {
	scripts := []string{"NNNCN", "NCRCN", "NNRNCN", "CRCN", "NNNRCRN", "NCNRNCRCNN", "NNNNNNCNRCN", "RNCRN",
		"FNNNCN", "NNNFNNNCN", "NFRNCN", "NNFRNCNN", "FNFNNRCN", "NNNFRRCN", "NFRRN"}
	for _, interval := range []uint64{1, 3, 10} {
		for _, sc := range scripts {
			store := &faulty{KVStore: mapdb.NewMapDB()}
			seen := map[uint64]bool{}
			seq, _ := kvstore.NewSequence(store, []byte("k"), interval)
			var last uint64
			first, ownLast := true, false
			for i, op := range sc {
				switch op {
				case 'N':
					v, err := seq.Next()
					if err != nil {
						continue
					}
					if seen[v] || (!first && v <= last) {
						t.Fatalf("REPLAY-VIOLATION Sequence handed out %d twice / not increasing (script %s step %d, interval %d)", v, sc, i, interval)
					}
					seen[v], last, first, ownLast = true, v, false, true
				case 'R':
					if err := seq.Release(); err == nil && ownLast {
						// a clean Release wastes nothing: the stored mark is the next number to hand out
						raw, gerr := store.KVStore.Get([]byte("k"))
						if gerr != nil || len(raw) < 8 || binary.BigEndian.Uint64(raw) != last+1 {
							t.Fatalf("REPLAY-VIOLATION Release returned nil but the stored mark is % x (%v), the next number is %d (script %s step %d, interval %d)", raw, gerr, last+1, sc, i, interval)
						}
					}
				case 'F':
					store.failSet = true
				case 'C':
					seq, _ = kvstore.NewSequence(store, []byte("k"), interval)
					ownLast = false
				}
			}
		}
	}
	// Release racing with Next on the same object: Release's store write is held back; a Next that gets through in the
	// meantime (it can only if Release writes outside the mutex) must not end up above the mark Release then stores
	{
		hs := &holding{KVStore: mapdb.NewMapDB(), entered: make(chan struct{}), release: make(chan struct{})}
		seq, _ := kvstore.NewSequence(hs, []byte("k"), 10)
		v0, _ := seq.Next()
		hs.armed.Store(true)
		relDone, nextDone := make(chan struct{}), make(chan uint64, 1)
		go func() { _ = seq.Release(); close(relDone) }()
		<-hs.entered
		go func() { v, _ := seq.Next(); nextDone <- v }()
		var got uint64
		select {
		case got = <-nextDone: // only possible when Release does not hold the mutex while writing
			close(hs.release)
		case <-time.After(300 * time.Millisecond):
			close(hs.release)
			got = <-nextDone
		}
		<-relDone
		raw, _ := hs.KVStore.Get([]byte("k"))
		if len(raw) >= 8 && binary.BigEndian.Uint64(raw) <= got {
			t.Fatalf("REPLAY-VIOLATION Release racing with Next: numbers %d and %d were handed out, the stored mark is %d: a restart hands out %d again", v0, got, binary.BigEndian.Uint64(raw), got)
		}
	}
}

// holding holds back the next Set (once) when armed
type holding struct {
	kvstore.KVStore
	armed            atomic.Bool
	entered, release chan struct{}
}

func (h *holding) Set(k kvstore.Key, v kvstore.Value) error {
	if h.armed.CompareAndSwap(true, false) {
		close(h.entered)
		<-h.release
	}
	return h.KVStore.Set(k, v)
}
`
	return "kvstore", ".", src, true
}

// ---------- C06 ----------
// Obligations of TypedValue/TypedStore quantify over every failure position of codec and store
// calls; the replay runs a differential fault-injection test of the real TypedValue against a
// plain model (raw bytes of the key under the codec) with each single call failing in turn.

func init() { replayGens["c06"] = replayC06 }

func replayC06(o *Obligation) (string, string, string, bool) {
	if !strings.HasPrefix(o.Name, "kvstore.TypedValue.") && !strings.HasPrefix(o.Name, "kvstore.TypedStore.") {
		return "", "", "", false
	}
	src := `package kvstore_test

import (
	"encoding/binary"
	"errors"
	"testing"

	"github.com/iotaledger/hive.go/ierrors"
	"github.com/iotaledger/hive.go/kvstore"
	"github.com/iotaledger/hive.go/kvstore/mapdb"
)

type faultStore struct {
	kvstore.KVStore
	calls, failAt int
}

func (f *faultStore) tick() error {
	f.calls++
	if f.calls == f.failAt {
		return errors.New("injected failure")
	}
	return nil
}
func (f *faultStore) Get(k kvstore.Key) (kvstore.Value, error) {
	if err := f.tick(); err != nil {
		return nil, err
	}
	return f.KVStore.Get(k)
}
func (f *faultStore) Has(k kvstore.Key) (bool, error) {
	if err := f.tick(); err != nil {
		return false, err
	}
	return f.KVStore.Has(k)
}
func (f *faultStore) Set(k kvstore.Key, v kvstore.Value) error {
	if err := f.tick(); err != nil {
		return err
	}
	return f.KVStore.Set(k, v)
}
func (f *faultStore) Delete(k kvstore.Key) error {
	if err := f.tick(); err != nil {
		return err
	}
	return f.KVStore.Delete(k)
}

// ops: S<n> set n, D delete, G get, H has, C compute(+1), N compute(not changed), E compute(error), R re-open (new TypedValue, empty cache)
func TestVerifReplay(t *testing.T) {
	scripts := [][]string{{"C"}, {"S1", "C", "G"}, {"S1", "D", "C", "G"}, {"G", "S2", "G", "H"}, {"H", "S3", "D", "H", "G"}, {"S1", "N", "E", "G"}, {"S4", "G", "C", "C", "G"}, {"D", "G", "S5", "G"},
		{"S1", "R", "G", "H", "G"}, {"S2", "R", "H", "G", "C", "G"}, {"S3", "R", "G", "G", "C"}, {"S1", "R", "C", "R", "G"}}
	for _, sc := range scripts {
		for failAt := 0; failAt < 12; failAt++ {
			store := &faultStore{KVStore: mapdb.NewMapDB(), failAt: failAt}
			f := store
			enc := func(v uint64) ([]byte, error) {
				if err := f.tick(); err != nil {
					return nil, err
				}
				b := make([]byte, 8)
				binary.LittleEndian.PutUint64(b, v)
				return b, nil
			}
			dec := func(b []byte) (uint64, int, error) {
				if err := f.tick(); err != nil {
					return 0, 0, err
				}
				if len(b) != 8 {
					return 0, 0, errors.New("bad length")
				}
				return binary.LittleEndian.Uint64(b), 8, nil
			}
			key := []byte("k")
			tv := kvstore.NewTypedValue[uint64](store, key, enc, dec)
			// model: raw contents of the key
			var mHas bool
			var mVal uint64
			check := func(step int, what string) {
				raw, err := store.KVStore.Get(key)
				has := err == nil
				if has != mHas || (has && (len(raw) != 8 || binary.LittleEndian.Uint64(raw) != mVal)) {
					t.Fatalf("REPLAY-VIOLATION TypedValue script %v failAt %d step %d (%s): store holds (%v,%x) but the last successfully written value is (%v,%d)", sc, failAt, step, what, has, raw, mHas, mVal)
				}
			}
			for i, op := range sc {
				switch op[0] {
				case 'S':
					v := uint64(op[1] - '0')
					if err := tv.Set(v); err == nil {
						mHas, mVal = true, v
					}
				case 'R':
					tv = kvstore.NewTypedValue[uint64](store, key, enc, dec)
				case 'D':
					if err := tv.Delete(); err == nil {
						mHas = false
					}
				case 'G':
					v, err := tv.Get()
					if err == nil && (!mHas || v != mVal) {
						t.Fatalf("REPLAY-VIOLATION TypedValue script %v failAt %d step %d: Get returned %d but the key holds (%v,%d)", sc, failAt, i, v, mHas, mVal)
					}
					if err != nil && mHas && failAt == 0 {
						t.Fatalf("REPLAY-VIOLATION TypedValue script %v step %d: Get failed (%v) on a healthy store holding %d", sc, i, err, mVal)
					}
					if !mHas && err == nil {
						t.Fatalf("REPLAY-VIOLATION TypedValue script %v failAt %d step %d: Get succeeded on a missing key", sc, failAt, i)
					}
				case 'H':
					h, err := tv.Has()
					if err == nil && h != mHas {
						t.Fatalf("REPLAY-VIOLATION TypedValue script %v failAt %d step %d: Has returned %v, key present %v", sc, failAt, i, h, mHas)
					}
				case 'C', 'N', 'E':
					before := store.calls
					var computed uint64
					called := false
					nv, err := tv.Compute(func(cur uint64, exists bool) (uint64, error) {
						called = true
						if exists != mHas || (exists && cur != mVal) {
							t.Fatalf("REPLAY-VIOLATION TypedValue script %v failAt %d step %d: compute saw (%d,%v), key holds (%v,%d)", sc, failAt, i, cur, exists, mHas, mVal)
						}
						switch op[0] {
						case 'N':
							return 0, kvstore.ErrTypedValueNotChanged
						case 'E':
							return 0, errors.New("compute failed")
						}
						computed = cur + 1
						return computed, nil
					})
					injected := failAt > before && failAt <= store.calls
					if err == nil && op[0] == 'C' && called {
						if injected {
							// a call failed during this Compute, yet no error was reported
							t.Fatalf("REPLAY-VIOLATION TypedValue script %v failAt %d step %d: a codec/store call failed inside Compute but Compute returned (%d, nil)", sc, failAt, i, nv)
						}
						mHas, mVal = true, computed
					}
					if op[0] == 'E' && called && err == nil {
						t.Fatalf("REPLAY-VIOLATION TypedValue script %v step %d: compute error swallowed", sc, i)
					}
					_ = ierrors.Is
				}
				check(i, op)
			}
		}
	}
	typedStoreChecks(t)
}

// TypedStore: every method is the raw operation under the codec - checked against the raw store for all small contents,
// both iteration directions, an early stop, and a key / value that does not decode
func typedStoreChecks(t *testing.T) {
	enc := func(v uint64) ([]byte, error) { b := make([]byte, 8); binary.BigEndian.PutUint64(b, v); return b, nil }
	dec := func(b []byte) (uint64, int, error) {
		if len(b) != 8 {
			return 0, 0, errors.New("not 8 bytes")
		}
		return binary.BigEndian.Uint64(b), 8, nil
	}
	for mask := 0; mask < 16; mask++ {
		raw := mapdb.NewMapDB()
		ts := kvstore.NewTypedStore[uint64, uint64](raw, enc, dec, enc, dec)
		var want []uint64
		for k := uint64(0); k < 4; k++ {
			if mask&(1<<k) != 0 {
				if err := ts.Set(k, k*10); err != nil {
					t.Fatalf("REPLAY-VIOLATION TypedStore.Set: %v", err)
				}
				want = append(want, k)
			}
		}
		for k := uint64(0); k < 4; k++ {
			kb, _ := enc(k)
			rawHas, _ := raw.Has(kb)
			has, err := ts.Has(k)
			v, gerr := ts.Get(k)
			if err != nil || has != rawHas || (rawHas && (gerr != nil || v != k*10)) || (!rawHas && gerr == nil) {
				t.Fatalf("REPLAY-VIOLATION TypedStore contents %04b: Has(%d) = %v, %v; Get = %d, %v; raw key present %v", mask, k, has, err, v, gerr, rawHas)
			}
		}
		for _, dir := range []kvstore.IterDirection{kvstore.IterDirectionForward, kvstore.IterDirectionBackward} {
			exp := append([]uint64{}, want...)
			if dir == kvstore.IterDirectionBackward {
				for i, j := 0, len(exp)-1; i < j; i, j = i+1, j-1 {
					exp[i], exp[j] = exp[j], exp[i]
				}
			}
			for stop := 0; stop <= len(exp)+1; stop++ {
				var pairs, keys []uint64
				if err := ts.Iterate(kvstore.EmptyPrefix, func(k uint64, v uint64) bool {
					if v != k*10 {
						t.Fatalf("REPLAY-VIOLATION TypedStore.Iterate hands out (%d, %d)", k, v)
					}
					pairs = append(pairs, k)
					return len(pairs) < stop
				}, dir); err != nil {
					t.Fatalf("REPLAY-VIOLATION TypedStore.Iterate: %v", err)
				}
				if err := ts.IterateKeys(kvstore.EmptyPrefix, func(k uint64) bool { keys = append(keys, k); return len(keys) < stop }, dir); err != nil {
					t.Fatalf("REPLAY-VIOLATION TypedStore.IterateKeys: %v", err)
				}
				n := stop
				if n == 0 && len(exp) > 0 {
					n = 1
				}
				if n > len(exp) {
					n = len(exp)
				}
				for _, got := range [][]uint64{pairs, keys} {
					if len(got) != n {
						t.Fatalf("REPLAY-VIOLATION TypedStore contents %v direction %d, consumer stops after %d: iteration handed out %v", want, dir, stop, got)
					}
					for i := range got {
						if got[i] != exp[i] {
							t.Fatalf("REPLAY-VIOLATION TypedStore contents %v direction %d: iteration order %v, the raw store's order is %v", want, dir, got, exp[:n])
						}
					}
				}
			}
		}
		// an undecodable raw key / value makes the iteration fail instead of being skipped or handed out
		if mask == 5 {
			_ = raw.Set([]byte("short"), []byte("x"))
			if err := ts.Iterate(kvstore.EmptyPrefix, func(uint64, uint64) bool { return true }); err == nil {
				t.Fatalf("REPLAY-VIOLATION TypedStore.Iterate over a raw key that does not decode returned nil")
			}
			if err := ts.IterateKeys(kvstore.EmptyPrefix, func(uint64) bool { return true }); err == nil {
				t.Fatalf("REPLAY-VIOLATION TypedStore.IterateKeys over a raw key that does not decode returned nil")
			}
			_ = raw.Delete([]byte("short"))
		}
		if mask == 15 {
			if err := ts.Delete(2); err != nil {
				t.Fatalf("REPLAY-VIOLATION TypedStore.Delete: %v", err)
			}
			if has, _ := ts.Has(2); has {
				t.Fatalf("REPLAY-VIOLATION TypedStore.Delete(2) left the key in the store")
			}
			if err := ts.Clear(); err != nil {
				t.Fatalf("REPLAY-VIOLATION TypedStore.Clear: %v", err)
			}
			left := 0
			_ = raw.IterateKeys(kvstore.EmptyPrefix, func(kvstore.Key) bool { left++; return true })
			if left != 0 {
				t.Fatalf("REPLAY-VIOLATION TypedStore.Clear left %d raw keys", left)
			}
		}
	}
}
`
	return "kvstore", ".", src, true
}

// ---------- C02 ----------
// The failing obligations are about panics, consumed-byte counts and allocation bounds for all
// input bytes. The replay feeds the method of the failed obligation a deterministic family of
// hostile inputs (all prefixes of patterned byte strings, maximal length prefixes, every lenType)
// under recover() and runtime.MemStats.

func init() { replayGens["c02"] = replayC02 }

var reC02 = regexp.MustCompile(`^v2\.Deserializer\.(\w+)`)

func replayC02(o *Obligation) (string, string, string, bool) {
	if strings.HasPrefix(o.Name, "stream.") {
		return "serializer", "stream", streamReplay(true), true
	}
	if strings.HasPrefix(o.Name, "serix.") {
		return "serializer", "serix", replayC02JSON, true
	}
	m := reC02.FindStringSubmatch(o.Name)
	if m == nil {
		return "", "", "", false
	}
	call := map[string]string{
		"ReadBool":              `var v bool; d.ReadBool(&v, ep)`,
		"ReadByte":              `var v byte; d.ReadByte(&v, ep)`,
		"ReadBytes":             `var v []byte; d.ReadBytes(&v, 5, ep)`,
		"ReadBytesInPlace":      `v := make([]byte, 5); d.ReadBytesInPlace(v, ep)`,
		"ReadVariableByteSlice": `var v []byte; d.ReadVariableByteSlice(&v, lt, ep, 0, 10)`,
		"ReadString":            `var v string; d.ReadString(&v, lt, ep, 0, 10)`,
		"readSliceLength":       `d.readSliceLength(lt, ep)`,
		"ReadTime":              `var v time.Time; d.ReadTime(&v, ep)`,
		"ReadUint256":           `var v *big.Int; d.ReadUint256(&v, ep)`,
		"ReadPayloadLength":     `d.ReadPayloadLength()`,
		"GetObjectType":         `d.GetObjectType(TypeDenotationUint32); d.GetObjectType(TypeDenotationByte)`,
		"Skip":                  `d.Skip(3, ep)`,
		"ReadNum":               `var v uint32; d.ReadNum(&v, ep); var w int64; d.ReadNum(&w, ep)`,
		"ReadPayload":           `var out Serializable; d.ReadPayload(&out, DeSeriModeNoValidation, nil, func(ty uint32) (Serializable, error) { return &rpSeri{}, nil }, ep)`,
		"ReadObject":            `var out Serializable; d.ReadObject(&out, DeSeriModeNoValidation, nil, TypeDenotationUint32, func(ty uint32) (Serializable, error) { return &rpSeri{}, nil }, ep); var o2 Serializable; d.ReadObject(&o2, DeSeriModeNoValidation, nil, TypeDenotationByte, func(ty uint32) (Serializable, error) { return &rpSeri{}, nil }, ep)`,
		"readObject":            `var out Serializable; d.readObject(&out, DeSeriModeNoValidation, nil, TypeDenotationUint32, func(ty uint32) (Serializable, error) { return &rpSeri{}, nil }, ep)`,
		"ReadSequenceOfObjects": `calls := 0; d.ReadSequenceOfObjects(func(b []byte) (int, error) { calls++; if calls > 100000 { return 0, errors.New("stop") }; return 0, nil }, DeSeriModePerformValidation, lt, &ArrayRules{Max: 4}, ep); if calls > 4 { t.Fatalf("REPLAY-VIOLATION ReadSequenceOfObjects invoked the item deserializer %d times although validation limits the collection to 4 elements (input %x, lenType %d)", calls, in, lt) }`,
	}[m[1]]
	if call == "" {
		return "", "", "", false
	}
	src := `package serializer

import (
	"errors"
	"math/big"
	"runtime"
	"testing"
	"time"
)

var _ = errors.New
var _ = big.NewInt
var _ time.Time

// a Serializable that consumes up to 2 bytes of what it is given
type rpSeri struct{}

func (*rpSeri) MarshalJSON() ([]byte, error) { return []byte("{}"), nil }
func (*rpSeri) UnmarshalJSON([]byte) error   { return nil }
func (*rpSeri) Deserialize(data []byte, _ DeSerializationMode, _ interface{}) (int, error) {
	if len(data) < 2 {
		return len(data), nil
	}
	return 2, nil
}
func (*rpSeri) Serialize(DeSerializationMode, interface{}) ([]byte, error) { return nil, nil }

func TestVerifReplay(t *testing.T) {
	var inputs [][]byte
	inputs = append(inputs, []byte{1, 0, 0, 0, 9}, []byte{2, 0, 0, 0, 9, 9}, []byte{3, 0, 0, 0, 9, 9, 9}, []byte{2, 0, 0, 0, 9, 9, 9, 9})
	pat := []byte{0xff, 0xff, 0xff, 0x3f, 0x01, 0x00, 0x02, 0x7f, 0x80, 0xfe, 1, 2, 3, 4, 5, 6, 7, 8, 9, 10, 11, 12, 13, 14, 15, 16, 17, 18, 19, 20, 21, 22, 23, 24, 25, 26, 27, 28, 29, 30}
	for n := 0; n <= len(pat); n++ {
		inputs = append(inputs, pat[:n:n])
		if n > 0 {
			inputs = append(inputs, pat[len(pat)-n:])
		}
	}
	inputs = append(inputs, []byte{0, 0, 0, 0x40}, []byte{5, 0, 0, 0, 1, 2}, []byte{2, 9, 9}, []byte{0xff, 0xff})
	for _, lt := range []SeriLengthPrefixType{SeriLengthPrefixTypeAsByte, SeriLengthPrefixTypeAsUint16, SeriLengthPrefixTypeAsUint32} {
		for _, nilEP := range []bool{false, true} {
			for _, in := range inputs {
				ep := func(err error) error {
					if nilEP {
						return nil
					}
					return err
				}
				_ = lt
				d := NewDeserializer(in)
				var before, after runtime.MemStats
				runtime.ReadMemStats(&before)
				func() {
					defer func() {
						if p := recover(); p != nil {
							t.Fatalf("REPLAY-VIOLATION ` + m[1] + ` panicked on input %x (lenType %d): %v", in, lt, p)
						}
					}()
					` + call + `
				}()
				runtime.ReadMemStats(&after)
				n, _ := d.Done()
				if n < 0 || n > len(in) {
					t.Fatalf("REPLAY-VIOLATION ` + m[1] + ` reports %d consumed bytes of %d supplied (input %x)", n, len(in), in)
				}
				if alloc := after.TotalAlloc - before.TotalAlloc; alloc > uint64(1<<20) {
					t.Fatalf("REPLAY-VIOLATION ` + m[1] + ` allocated %d bytes for the %d-byte input %x (lenType %d)", alloc, len(in), in, lt)
				}
			}
		}
	}
}
`
	return "serializer", ".", src, true
}

// ---------- C12 ----------
func init() { replayGens["c12"] = replayC12 }

func replayC12(o *Obligation) (string, string, string, bool) {
	switch {
	case strings.HasPrefix(o.Name, "timeheap.TimeHeap."):
		src := `package timeheap

import (
	"testing"
	"time"
)

// model: the windowed sum of what was added and not cleared
func TestVerifReplay(t *testing.T) {
	h := NewTimeHeap()
	h.Add(5)
	h.Add(7)
	if got := h.AveragePerSecond(time.Hour) * 3600; got < 11.9 || got > 12.1 {
		t.Fatalf("REPLAY-VIOLATION TimeHeap: added 5+7 but the windowed sum is %v", got)
	}
	h.Clear()
	if got := h.AveragePerSecond(time.Hour) * 3600; got != 0 {
		t.Fatalf("REPLAY-VIOLATION TimeHeap: after Add(5), Add(7), Clear() the windowed sum is %v, not 0", got)
	}
	h.Add(3)
	if got := h.AveragePerSecond(time.Hour) * 3600; got < 2.9 || got > 3.1 {
		t.Fatalf("REPLAY-VIOLATION TimeHeap: after Clear() and Add(3) the windowed sum is %v, not 3", got)
	}
	// entries leave the window oldest first, also after calls that found all entries still inside the window
	w := NewTimeHeap()
	w.Add(50)
	time.Sleep(300 * time.Millisecond)
	w.Add(1)
	if got := w.AveragePerSecond(400*time.Millisecond) * 0.4; got < 50.9 || got > 51.1 {
		t.Fatalf("REPLAY-VIOLATION TimeHeap: 50 and 1 are inside the window, the windowed sum is %v", got)
	}
	time.Sleep(250 * time.Millisecond) // the first entry (550ms old) has left a 400ms window, the second (250ms) has not
	if got := w.AveragePerSecond(400*time.Millisecond) * 0.4; got < 0.9 || got > 1.1 {
		t.Fatalf("REPLAY-VIOLATION TimeHeap: the entry 50 is older than the window and 1 is inside it, the windowed sum is %v", got)
	}
}
`
		return "ds", "timeheap", src, true
	case strings.HasPrefix(o.Name, "bytesfilter."):
		src := `package bytesfilter

import (
	"math/rand"
	"testing"
)

type rpID [32]byte

// model: the last N distinct identifiers, oldest first
func TestVerifReplay(t *testing.T) {
	rng := rand.New(rand.NewSource(5))
	for _, size := range []int{1, 2, 3, 5} {
		f := New(func(b []byte) rpID { var id rpID; copy(id[:], b); return id }, size)
		var model []rpID
		for step := 0; step < 400; step++ {
			var id rpID
			id[0] = byte(rng.Intn(size + 3))
			known := false
			for _, m := range model {
				known = known || m == id
			}
			var added bool
			if rng.Intn(2) == 0 {
				added = f.AddIdentifier(id)
			} else {
				_, added = f.Add(id[:1])
			}
			if added == known {
				t.Fatalf("REPLAY-VIOLATION BytesFilter(size %d) step %d: Add of %d returned %v, the filter remembers %v", size, step, id[0], added, model)
			}
			if !known {
				model = append(model, id)
				if len(model) > size {
					model = model[1:]
				}
			}
			for v := 0; v < size+3; v++ {
				var q rpID
				q[0] = byte(v)
				want := false
				for _, m := range model {
					want = want || m == q
				}
				if f.ContainsIdentifier(q) != want || f.Contains(q[:1]) != want {
					t.Fatalf("REPLAY-VIOLATION BytesFilter(size %d) step %d: Contains(%d) = %v, the last %d distinct identifiers are %v", size, step, v, f.ContainsIdentifier(q), size, model)
				}
			}
		}
	}
}
`
		return "ds", "bytesfilter", src, true
	case strings.HasPrefix(o.Name, "memstorage."):
		src := `package memstorage

import (
	"testing"

	"github.com/iotaledger/hive.go/ds/shrinkingmap"
)

type shrinkingmapT = shrinkingmap.ShrinkingMap[string, int]

// model: a map from index to storage; Clear hands back the pairs, pairwise
func TestVerifReplay(t *testing.T) {
	s := NewIndexedStorage[uint32, string, int]()
	if s.Get(3) != nil {
		t.Fatalf("REPLAY-VIOLATION IndexedStorage.Get of a missing index without createIfMissing created a storage")
	}
	created := map[uint32]any{}
	for i := uint32(0); i < 64; i++ {
		st := s.Get(i, true)
		if st == nil || s.Get(i) != st || s.Get(i, true) != st {
			t.Fatalf("REPLAY-VIOLATION IndexedStorage.Get(%d, true) does not keep the storage it created", i)
		}
		st.Set("owner", int(i))
		created[i] = st
	}
	if ev := s.Evict(7); ev != created[7] || s.Get(7) != nil || s.Evict(7) != nil {
		t.Fatalf("REPLAY-VIOLATION IndexedStorage.Evict(7) does not hand back / remove the storage of index 7")
	}
	seen := 0
	s.ForEach(func(i uint32, st *shrinkingmapT) {
		seen++
		if created[i] != any(st) {
			t.Fatalf("REPLAY-VIOLATION IndexedStorage.ForEach hands out index %d with another index's storage", i)
		}
	})
	keys, storages := s.Clear()
	if len(keys) != len(storages) || len(keys) != 63 || seen != 63 {
		t.Fatalf("REPLAY-VIOLATION IndexedStorage.Clear returned %d keys and %d storages (ForEach saw %d) of 63", len(keys), len(storages), seen)
	}
	for i, k := range keys {
		if owner, _ := storages[i].Get("owner"); owner != int(k) {
			t.Fatalf("REPLAY-VIOLATION IndexedStorage.Clear: clearedStorages[%d] is the storage of index %d, clearedKeys[%d] is %d", i, owner, i, k)
		}
	}
	if s.Get(1) != nil {
		t.Fatalf("REPLAY-VIOLATION IndexedStorage still has a storage after Clear")
	}
}
`
		return "core", "memstorage", src, true
	case strings.HasPrefix(o.Name, "timed.time"), strings.HasPrefix(o.Name, "timed.NewPriorityQueue"):
		src := `package timed

import (
	"testing"
	"time"
)

// the two orders compare instants, also instants an int64 of nanoseconds cannot express
func TestVerifReplay(t *testing.T) {
	now := time.Now()
	instants := []time.Time{time.Unix(-1<<40, 0), time.Unix(0, 0), now.Add(-time.Hour), now, now.Add(time.Nanosecond), now.Add(time.Hour), time.Date(2300, 1, 1, 0, 0, 0, 0, time.UTC), time.Date(9000, 1, 1, 0, 0, 0, 0, time.UTC)}
	for i, a := range instants {
		for j, b := range instants {
			want := 0
			if i < j {
				want = -1
			} else if i > j {
				want = 1
			}
			if got := timeAscending(a).CompareTo(timeAscending(b)); got != want {
				t.Fatalf("REPLAY-VIOLATION timeAscending(%v).CompareTo(%v) = %d, expected %d", a, b, got, want)
			}
			if got := timeDescending(a).CompareTo(timeDescending(b)); got != -want {
				t.Fatalf("REPLAY-VIOLATION timeDescending(%v).CompareTo(%v) = %d, expected %d", a, b, got, -want)
			}
		}
	}
	q := NewPriorityQueue[string](true)
	q.Push("far", time.Date(2300, 1, 1, 0, 0, 0, 0, time.UTC))
	q.Push("soon", now.Add(time.Minute))
	if due := q.PopUntil(now.Add(time.Hour)); len(due) != 1 || due[0] != "soon" {
		t.Fatalf("REPLAY-VIOLATION ascending timed queue: PopUntil(now+1h) returned %v (a deadline in 2300 is not due)", due)
	}
	// the order option: ascending exactly when true is passed
	for _, opt := range [][]bool{nil, {false}, {true}} {
		p := NewPriorityQueue[string](opt...)
		p.Push("early", now)
		p.Push("late", now.Add(time.Hour))
		p.Push("middle", now.Add(time.Minute))
		want := "late"
		if len(opt) > 0 && opt[0] {
			want = "early"
		}
		if first, _ := p.Pop(); first != want {
			t.Fatalf("REPLAY-VIOLATION NewPriorityQueue(%v): the first element popped is %q, expected %q", opt, first, want)
		}
	}
}
`
		return "runtime", "timed", src, true
	case strings.HasPrefix(o.Name, "subscriptionmanager."):
		src := `package subscriptionmanager

import (
	"fmt"
	"math/rand"
	"testing"
)

// model: per client a map topic -> count; the global view of a topic is the sum over the connected clients; the
// topic / subscription events mirror the changes of that state
func TestVerifReplay(t *testing.T) {
	clients := []string{"A", "B", "C"}
	topics := []string{"t", "u", "v", "w"}
	for _, limit := range []int{0, 2, 3} {
		for seed := int64(1); seed <= 40; seed++ {
			rng := rand.New(rand.NewSource(seed))
			m := New[string, string](WithMaxTopicSubscriptionsPerClient[string, string](limit), WithCleanupThresholdCount[string, string](1), WithCleanupThresholdRatio[string, string](0.1))
			model := map[string]map[string]int{}
			global := map[string]bool{} // topics announced by TopicAdded and not yet by TopicRemoved
			subEvents := map[string]int{}
			var hist []string
			m.Events().TopicAdded.Hook(func(e *TopicEvent[string]) {
				if global[e.Topic] {
					t.Fatalf("REPLAY-VIOLATION SubscriptionManager(limit %d) %v: TopicAdded(%s) for a topic that is already announced", limit, hist, e.Topic)
				}
				global[e.Topic] = true
			})
			m.Events().TopicRemoved.Hook(func(e *TopicEvent[string]) {
				if !global[e.Topic] {
					t.Fatalf("REPLAY-VIOLATION SubscriptionManager(limit %d) %v: TopicRemoved(%s) for a topic that was not announced", limit, hist, e.Topic)
				}
				delete(global, e.Topic)
			})
			m.Events().TopicSubscribed.Hook(func(e *ClientTopicEvent[string, string]) { subEvents[e.ClientID+"/"+e.Topic]++ })
			m.Events().TopicUnsubscribed.Hook(func(e *ClientTopicEvent[string, string]) {
				subEvents[e.ClientID+"/"+e.Topic]--
				if subEvents[e.ClientID+"/"+e.Topic] < 0 {
					t.Fatalf("REPLAY-VIOLATION SubscriptionManager(limit %d) %v: more TopicUnsubscribed(%s, %s) events than TopicSubscribed events", limit, hist, e.ClientID, e.Topic)
				}
			})
			for step := 0; step < 60; step++ {
				c, tp := clients[rng.Intn(len(clients))], topics[rng.Intn(len(topics))]
				switch op := rng.Intn(10); {
				case op == 0:
					hist = append(hist, "Connect("+c+")")
					m.Connect(c)
					model[c] = map[string]int{}
				case op == 1:
					hist = append(hist, "Disconnect("+c+")")
					_, was := model[c]
					if got := m.Disconnect(c); got != was {
						t.Fatalf("REPLAY-VIOLATION SubscriptionManager(limit %d) %v: Disconnect returned %v", limit, hist, got)
					}
					delete(model, c)
				case op <= 6:
					hist = append(hist, "Subscribe("+c+","+tp+")")
					got := m.Subscribe(c, tp)
					want := false
					if cm, ok := model[c]; ok {
						_, held := cm[tp]
						if !held && limit != 0 && len(cm)+1 >= limit {
							delete(model, c) // dropped at the limit
						} else {
							cm[tp]++
							want = true
						}
					}
					if got != want {
						t.Fatalf("REPLAY-VIOLATION SubscriptionManager(limit %d) %v: Subscribe returned %v, expected %v", limit, hist, got, want)
					}
				default:
					hist = append(hist, "Unsubscribe("+c+","+tp+")")
					got := m.Unsubscribe(c, tp)
					want := false
					if cm, ok := model[c]; ok && cm[tp] > 0 {
						want = true
						if cm[tp]--; cm[tp] == 0 {
							delete(cm, tp)
						}
					}
					if got != want {
						t.Fatalf("REPLAY-VIOLATION SubscriptionManager(limit %d) %v: Unsubscribe returned %v, expected %v", limit, hist, got, want)
					}
				}
				live := 0
				for _, tp := range topics {
					sum := 0
					for c, cm := range model {
						sum += cm[tp]
						if m.ClientSubscribedToTopic(c, tp) != (cm[tp] > 0) {
							t.Fatalf("REPLAY-VIOLATION SubscriptionManager(limit %d) %v: ClientSubscribedToTopic(%s, %s) = %v, the client holds %d subscriptions", limit, hist, c, tp, !(cm[tp] > 0), cm[tp])
						}
					}
					if sum > 0 {
						live++
					}
					if m.TopicHasSubscribers(tp) != (sum > 0) {
						t.Fatalf("REPLAY-VIOLATION SubscriptionManager(limit %d) %v: TopicHasSubscribers(%s) = %v, but the connected clients hold %d subscriptions of it", limit, hist, tp, !(sum > 0), sum)
					}
					if global[tp] != (sum > 0) {
						t.Fatalf("REPLAY-VIOLATION SubscriptionManager(limit %d) %v: the TopicAdded / TopicRemoved events say topic %s is announced = %v, but the connected clients hold %d subscriptions of it", limit, hist, tp, global[tp], sum)
					}
				}
				if m.TopicsSize() != live || m.SubscribersSize() != len(model) {
					t.Fatalf("REPLAY-VIOLATION SubscriptionManager(limit %d) %v: TopicsSize %d / SubscribersSize %d, expected %d / %d", limit, hist, m.TopicsSize(), m.SubscribersSize(), live, len(model))
				}
				for k, n := range subEvents {
					var c, tp string
					fmt.Sscanf(k, "%1s/%1s", &c, &tp)
					if n != model[c][tp] {
						t.Fatalf("REPLAY-VIOLATION SubscriptionManager(limit %d) %v: TopicSubscribed minus TopicUnsubscribed events of %s is %d, the client holds %d", limit, hist, k, n, model[c][tp])
					}
				}
			}
		}
	}
}
`
		return "web", "subscriptionmanager", src, true
	case strings.HasPrefix(o.Name, "priorityqueue."):
		src := `package priorityqueue

import (
	"math/rand"
	"sort"
	"testing"
)

type rpPrio int

func (a rpPrio) CompareTo(b rpPrio) int {
	switch {
	case a < b:
		return -1
	case a > b:
		return 1
	}
	return 0
}

// model: the multiset of (priority, value) pairs still queued, popped lowest priority first; removal handles are
// idempotent and remove their own element only
func TestVerifReplay(t *testing.T) {
	for seed := int64(1); seed <= 60; seed++ {
		rng := rand.New(rand.NewSource(seed))
		q := New[int, rpPrio]()
		model := map[int]rpPrio{} // value (unique) -> priority
		handles := map[int]func(){}
		next := 0
		minPrio := func() (rpPrio, bool) {
			first := true
			var m rpPrio
			for _, p := range model {
				if first || p < m {
					m, first = p, false
				}
			}
			return m, !first
		}
		for step := 0; step < 120; step++ {
			switch op := rng.Intn(10); {
			case op < 4:
				next++
				p := rpPrio(rng.Intn(12))
				handles[next] = q.Push(next, p)
				model[next] = p
			case op < 6:
				v, ok := q.Pop()
				m, any := minPrio()
				if ok != any || (ok && model[v] != m) {
					t.Fatalf("REPLAY-VIOLATION PriorityQueue seed %d step %d: Pop returned (%d, %v) with priority %d, the queue holds %v (lowest priority %d)", seed, step, v, ok, model[v], model, m)
				}
				delete(model, v)
			case op == 6:
				v, ok := q.Peek()
				m, any := minPrio()
				if ok != any || (ok && model[v] != m) {
					t.Fatalf("REPLAY-VIOLATION PriorityQueue seed %d step %d: Peek returned (%d, %v), the queue holds %v", seed, step, v, ok, model)
				}
			case op == 7:
				bound := rpPrio(rng.Intn(12))
				got := q.PopUntil(bound)
				var want []int
				for v, p := range model {
					if p <= bound {
						want = append(want, v)
					}
				}
				for i := 1; i < len(got); i++ {
					if model[got[i-1]] > model[got[i]] {
						t.Fatalf("REPLAY-VIOLATION PriorityQueue seed %d step %d: PopUntil(%d) returned %v out of priority order (%v)", seed, step, bound, got, model)
					}
				}
				g := append([]int{}, got...)
				sort.Ints(g)
				sort.Ints(want)
				if len(g) != len(want) {
					t.Fatalf("REPLAY-VIOLATION PriorityQueue seed %d step %d: PopUntil(%d) returned %v, the elements with a priority up to the bound are %v (queue %v)", seed, step, bound, g, want, model)
				}
				for i := range g {
					if g[i] != want[i] {
						t.Fatalf("REPLAY-VIOLATION PriorityQueue seed %d step %d: PopUntil(%d) returned %v, expected %v", seed, step, bound, g, want)
					}
					delete(model, g[i])
				}
			case op == 8 && len(handles) > 0:
				// a removal handle - of a queued or an already removed / popped element, possibly for the second time
				k := 1 + rng.Intn(next)
				handles[k]()
				delete(model, k)
			default:
				if rng.Intn(6) == 0 {
					got := q.PopAll()
					if len(got) != len(model) {
						t.Fatalf("REPLAY-VIOLATION PriorityQueue seed %d step %d: PopAll returned %d elements, the queue held %d", seed, step, len(got), len(model))
					}
					model = map[int]rpPrio{}
				}
			}
			if q.Size() != len(model) || q.IsEmpty() != (len(model) == 0) {
				t.Fatalf("REPLAY-VIOLATION PriorityQueue seed %d step %d: Size %d / IsEmpty %v, the queue holds %d elements", seed, step, q.Size(), q.IsEmpty(), len(model))
			}
		}
	}
}
`
		return "ds", "priorityqueue", src, true
	case strings.HasPrefix(o.Name, "walker.Walker."):
		src := `package walker

import "testing"

// model: every offered element is remembered as pushed and yielded once (no revisit) in queue order
func TestVerifReplay(t *testing.T) {
	for _, revisit := range []bool{false, true} {
		w := New[int](revisit)
		w.Push(1)
		w.PushFront(1, 2, 3) // 1 is a repeat; 2 and 3 are new
		for _, e := range []int{1, 2, 3} {
			if !w.Pushed(e) {
				t.Fatalf("REPLAY-VIOLATION Walker(revisit=%v): Push(1); PushFront(1,2,3): element %d was offered but is not remembered as pushed", revisit, e)
			}
		}
		seen := map[int]int{}
		for w.HasNext() {
			seen[w.Next()]++
		}
		for _, e := range []int{1, 2, 3} {
			if seen[e] == 0 || (!revisit && seen[e] != 1) {
				t.Fatalf("REPLAY-VIOLATION Walker(revisit=%v): Push(1); PushFront(1,2,3): element %d yielded %d times", revisit, e, seen[e])
			}
		}
		w2 := New[int](revisit)
		w2.PushAll(4, 5, 4, 6)
		for _, e := range []int{4, 5, 6} {
			if !w2.Pushed(e) {
				t.Fatalf("REPLAY-VIOLATION Walker(revisit=%v): PushAll(4,5,4,6): element %d not remembered as pushed", revisit, e)
			}
		}
	}
}
`
		return "ds", "walker", src, true
	}
	return "", "", "", false
}

// ---------- C11 ----------
func init() { replayGens["c11"] = replayC11 }

func replayC11(o *Obligation) (string, string, string, bool) {
	if strings.HasPrefix(o.Name, "serializableorderedmap.") {
		src := `package serializableorderedmap

import (
	"fmt"
	"testing"

	"github.com/iotaledger/hive.go/serializer/v2/serix"
)

type rpEntry struct {
	Weight uint16 ` + "`serix:\"\"`" + `
	Flag   bool   ` + "`serix:\"\"`" + `
}

// oracle: Encode / Decode round-trips contents and order - for plain values, pointer values and pointer keys
func TestVerifReplay(t *testing.T) {
	api := serix.NewAPI()
	plain := New[uint32, uint32]()
	for i := uint32(0); i < 6; i++ {
		plain.Set(100-i*7, i)
	}
	enc, err := plain.Encode(api)
	if err != nil {
		t.Fatalf("encode: %v", err)
	}
	back := New[uint32, uint32]()
	if n, err := back.Decode(api, enc); err != nil || n != len(enc) {
		t.Fatalf("REPLAY-VIOLATION SerializableOrderedMap[uint32,uint32]: Decode of the encoding returned (%d, %v), the encoding has %d bytes", n, err, len(enc))
	}
	show := func(m *SerializableOrderedMap[uint32, uint32]) (s string) {
		m.ForEach(func(k, v uint32) bool { s += fmt.Sprintf("%d:%d ", k, v); return true })
		return s
	}
	if show(back) != show(plain) {
		t.Fatalf("REPLAY-VIOLATION SerializableOrderedMap[uint32,uint32] round trip: encoded %s decoded %s", show(plain), show(back))
	}
	ptr := New[uint32, *rpEntry]()
	ptr.Set(3, &rpEntry{Weight: 30, Flag: true})
	ptr.Set(1, &rpEntry{Weight: 10})
	ptr.Set(2, &rpEntry{Weight: 20, Flag: true})
	enc, err = ptr.Encode(api)
	if err != nil {
		t.Fatalf("encode: %v", err)
	}
	pback := New[uint32, *rpEntry]()
	if _, err := pback.Decode(api, enc); err != nil {
		t.Fatalf("decode: %v", err)
	}
	pshow := func(m *SerializableOrderedMap[uint32, *rpEntry]) (s string) {
		m.ForEach(func(k uint32, v *rpEntry) bool { s += fmt.Sprintf("%d:%v ", k, *v); return true })
		return s
	}
	if pshow(pback) != pshow(ptr) {
		t.Fatalf("REPLAY-VIOLATION SerializableOrderedMap with pointer values, round trip: encoded %s decoded %s (the decoded entries share one value)", pshow(ptr), pshow(pback))
	}
	keys := New[*rpEntry, uint8]()
	keys.Set(&rpEntry{Weight: 3}, 3)
	keys.Set(&rpEntry{Weight: 1}, 1)
	enc, err = keys.Encode(api)
	if err != nil {
		t.Fatalf("encode: %v", err)
	}
	kback := New[*rpEntry, uint8]()
	if _, err := kback.Decode(api, enc); err != nil {
		t.Fatalf("decode: %v", err)
	}
	if kback.Size() != 2 {
		t.Fatalf("REPLAY-VIOLATION SerializableOrderedMap with pointer keys, round trip: %d entries encoded, %d decoded", keys.Size(), kback.Size())
	}
}
`
		return "ds", "serializableorderedmap", src, true
	}
	if !strings.HasPrefix(o.Name, "ds.set.") && !strings.HasPrefix(o.Name, "ds.setArithmetic.") && !strings.HasPrefix(o.Name, "ds.readableSet.") {
		return "", "", "", false
	}
	src := `package ds

import (
	"math/rand"
	"sort"
	"testing"
	"time"
)

// a ReadableSet whose iteration lets a writer queue on the target set before the callback runs
type queueWriterSet struct {
	ReadableSet[int]
	before func()
}

func (q *queueWriterSet) ForEach(cb func(int) error) error {
	q.before()
	return q.ReadableSet.ForEach(cb)
}
func (q *queueWriterSet) Range(cb func(int)) {
	q.before()
	q.ReadableSet.Range(cb)
}

// every Set method must return: no combination of methods may deadlock
func TestVerifReplay(t *testing.T) {
	type op struct {
		name string
		run  func(s Set[int], other ReadableSet[int])
	}
	ops := []op{
		{"DeleteAll", func(s Set[int], o ReadableSet[int]) { s.DeleteAll(o) }},
		{"AddAll", func(s Set[int], o ReadableSet[int]) { s.AddAll(o) }},
		{"Replace", func(s Set[int], o ReadableSet[int]) { s.Replace(o) }},
	}
	for _, o := range ops {
		s := NewSet(1, 2, 3)
		other := &queueWriterSet{ReadableSet: NewSet(2, 3, 4)}
		other.before = func() {
			// a concurrent Apply queues for the write lock while the bulk operation is in progress
			go s.Apply(NewSetMutations[int]().WithAddedElements(NewSet(9)))
			time.Sleep(100 * time.Millisecond)
		}
		done := make(chan struct{})
		go func() { o.run(s, other); close(done) }()
		select {
		case <-done:
		case <-time.After(3 * time.Second):
			t.Fatalf("REPLAY-VIOLATION ds.Set.%s did not return within 3s while an Apply was queued (re-entrant read lock on applyMutex)", o.name)
		}
	}
	functionalChecks(t)
}

// every operation against a reference model (Go maps) over the universe 0..3: return values, reported diffs, contents
func functionalChecks(t *testing.T) {
	rng := rand.New(rand.NewSource(7))
	pick := func() map[int]bool {
		m := map[int]bool{}
		for e := 0; e < 4; e++ {
			if rng.Intn(2) == 0 {
				m[e] = true
			}
		}
		return m
	}
	mk := func(m map[int]bool) Set[int] {
		r := NewSet[int]()
		for e := 0; e < 4; e++ {
			if m[e] {
				r.Add(e)
			}
		}
		return r
	}
	same := func(s ReadableSet[int], m map[int]bool) bool {
		if s.Size() != len(m) {
			return false
		}
		for e := range m {
			if !s.Has(e) {
				return false
			}
		}
		return true
	}
	show := func(s ReadableSet[int]) []int { x := s.ToSlice(); sort.Ints(x); return x }
	keys := func(m map[int]bool) []int {
		var x []int
		for e := range m {
			x = append(x, e)
		}
		sort.Ints(x)
		return x
	}
	for round := 0; round < 3000; round++ {
		model := pick()
		s := mk(model)
		arg := pick()
		arg2 := pick()
		switch rng.Intn(7) {
		case 0:
			e := rng.Intn(4)
			if got := s.Add(e); got != !model[e] {
				t.Fatalf("REPLAY-VIOLATION ds.Set %v .Add(%d) = %v", keys(model), e, got)
			}
			model[e] = true
		case 1:
			e := rng.Intn(4)
			if got := s.Delete(e); got != model[e] {
				t.Fatalf("REPLAY-VIOLATION ds.Set %v .Delete(%d) = %v", keys(model), e, got)
			}
			delete(model, e)
		case 2:
			want := map[int]bool{}
			for e := range arg {
				if !model[e] {
					want[e] = true
				}
			}
			if got := s.AddAll(mk(arg)); !same(got, want) {
				t.Fatalf("REPLAY-VIOLATION ds.Set %v .AddAll(%v) reports %v, the elements whose membership changed are %v", keys(model), keys(arg), show(got), keys(want))
			}
			for e := range arg {
				model[e] = true
			}
		case 3:
			want := map[int]bool{}
			for e := range arg {
				if model[e] {
					want[e] = true
				}
			}
			if got := s.DeleteAll(mk(arg)); !same(got, want) {
				t.Fatalf("REPLAY-VIOLATION ds.Set %v .DeleteAll(%v) reports %v, the elements whose membership changed are %v", keys(model), keys(arg), show(got), keys(want))
			}
			for e := range arg {
				delete(model, e)
			}
		case 4, 5:
			// Apply / Compute: additions first, then deletions
			wantAdd, wantDel := map[int]bool{}, map[int]bool{}
			mid := map[int]bool{}
			for e := range model {
				mid[e] = true
			}
			for e := range arg {
				if !mid[e] {
					wantAdd[e] = true
				}
				mid[e] = true
			}
			for e := range arg2 {
				if mid[e] {
					wantDel[e] = true
				}
				delete(mid, e)
			}
			mut := NewSetMutations[int]().WithAddedElements(mk(arg)).WithDeletedElements(mk(arg2))
			var got SetMutations[int]
			name := "Apply"
			if rng.Intn(2) == 0 {
				got = s.Apply(mut)
			} else {
				name = "Compute"
				got = s.Compute(func(ReadableSet[int]) SetMutations[int] { return mut })
			}
			if !same(got.AddedElements(), wantAdd) || !same(got.DeletedElements(), wantDel) {
				t.Fatalf("REPLAY-VIOLATION ds.Set %v .%s(add %v, delete %v) reports added %v deleted %v, expected added %v deleted %v", keys(model), name, keys(arg), keys(arg2), show(got.AddedElements()), show(got.DeletedElements()), keys(wantAdd), keys(wantDel))
			}
			model = mid
		case 6:
			if got := s.Replace(mk(arg)); !same(got, model) {
				t.Fatalf("REPLAY-VIOLATION ds.Set %v .Replace(%v) returns %v as the previous elements", keys(model), keys(arg), show(got))
			}
			model = arg
		}
		if !same(s, model) {
			t.Fatalf("REPLAY-VIOLATION ds.Set holds %v, the model %v", show(s), keys(model))
		}
	}
	// SetArithmetic collectors sharing one mutations object: all histories of up to 6 steps on one element - the net
	// mutation is the membership change (count >= threshold) between start and end
	for threshold := 1; threshold <= 3; threshold++ {
		for initial := 0; initial <= 3; initial++ {
			for length := 0; length <= 6; length++ {
				for history := 0; history < 1<<length; history++ {
					a := NewSetArithmetic[int]()
					seed := a.AddedElementsCollector(NewSetMutations[int](), threshold)
					for i := 0; i < initial; i++ {
						seed(7)
					}
					m := NewSetMutations[int]()
					add, sub := a.AddedElementsCollector(m, threshold), a.SubtractedElementsCollector(m, threshold)
					count, trace := initial, ""
					for step := 0; step < length; step++ {
						if history&(1<<step) != 0 {
							add(7)
							count++
							trace += "+"
						} else {
							sub(7)
							count--
							trace += "-"
						}
					}
					was, is := initial >= threshold, count >= threshold
					if m.AddedElements().Has(7) != (!was && is) || m.DeletedElements().Has(7) != (was && !is) {
						t.Fatalf("REPLAY-VIOLATION SetArithmetic collectors, threshold %d, initial count %d, steps %q: collected added %v deleted %v, the membership went %v -> %v", threshold, initial, trace, m.AddedElements().Has(7), m.DeletedElements().Has(7), was, is)
					}
				}
			}
		}
	}
	// SetArithmetic: net mutations of occurrence counts crossing the threshold
	for round := 0; round < 2000; round++ {
		a := NewSetArithmetic[int]()
		count := map[int]int{}
		for step := 0; step < 4; step++ {
			adds, dels := pick(), pick() // may overlap: an element added and deleted by one report cancels out
			threshold := 1 + rng.Intn(2)
			subtract := rng.Intn(2) == 0
			wantAdd, wantDel := map[int]bool{}, map[int]bool{}
			apply := func(e int, delta int) {
				before := count[e]
				count[e] += delta
				if before < threshold && count[e] >= threshold {
					if wantDel[e] {
						delete(wantDel, e)
					} else {
						wantAdd[e] = true
					}
				}
				if before >= threshold && count[e] < threshold {
					if wantAdd[e] {
						delete(wantAdd, e)
					} else {
						wantDel[e] = true
					}
				}
			}
			for e := 0; e < 4; e++ {
				if adds[e] {
					apply(e, map[bool]int{false: 1, true: -1}[subtract])
				}
			}
			for e := 0; e < 4; e++ {
				if dels[e] {
					apply(e, map[bool]int{false: -1, true: 1}[subtract])
				}
			}
			mut := NewSetMutations[int]().WithAddedElements(mk(adds)).WithDeletedElements(mk(dels))
			var got SetMutations[int]
			if subtract {
				got = a.Subtract(mut, threshold)
			} else {
				got = a.Add(mut, threshold)
			}
			if !same(got.AddedElements(), wantAdd) || !same(got.DeletedElements(), wantDel) {
				t.Fatalf("REPLAY-VIOLATION SetArithmetic (subtract %v, threshold %d) report add %v delete %v: net added %v deleted %v, the threshold crossings are added %v deleted %v", subtract, threshold, keys(adds), keys(dels), show(got.AddedElements()), show(got.DeletedElements()), keys(wantAdd), keys(wantDel))
			}
		}
	}
}
`
	return "ds", ".", src, true
}

// ---------- C10 ----------
func init() { replayGens["c10"] = replayC10 }

func replayC10(o *Obligation) (string, string, string, bool) {
	if !strings.HasPrefix(o.Name, "ds.list.") && !strings.HasPrefix(o.Name, "ds.listElement.") && !strings.HasPrefix(o.Name, "ds.threadSafeList.") {
		return "", "", "", false
	}
	src := `package ds

import (
	stdlist "container/list"
	"fmt"
	"testing"
)

// oracle: Go's container/list. All operation sequences of length <= 3 over 4 handles (3 live + 1 foreign),
// both flavours.
func TestVerifReplay(t *testing.T) {
	type opf struct {
		name string
		ours func(l List[int], hs []ListElement[int], a, b int)
		std  func(l *stdlist.List, hs []*stdlist.Element, a, b int)
	}
	ops := []opf{
		{"MoveBefore", func(l List[int], hs []ListElement[int], a, b int) { l.MoveBefore(hs[a], hs[b]) }, func(l *stdlist.List, hs []*stdlist.Element, a, b int) { l.MoveBefore(hs[a], hs[b]) }},
		{"MoveAfter", func(l List[int], hs []ListElement[int], a, b int) { l.MoveAfter(hs[a], hs[b]) }, func(l *stdlist.List, hs []*stdlist.Element, a, b int) { l.MoveAfter(hs[a], hs[b]) }},
		{"MoveToFront", func(l List[int], hs []ListElement[int], a, b int) { l.MoveToFront(hs[a]) }, func(l *stdlist.List, hs []*stdlist.Element, a, b int) { l.MoveToFront(hs[a]) }},
		{"MoveToBack", func(l List[int], hs []ListElement[int], a, b int) { l.MoveToBack(hs[a]) }, func(l *stdlist.List, hs []*stdlist.Element, a, b int) { l.MoveToBack(hs[a]) }},
		{"Remove", func(l List[int], hs []ListElement[int], a, b int) { l.Remove(hs[a]) }, func(l *stdlist.List, hs []*stdlist.Element, a, b int) { l.Remove(hs[a]) }},
		{"InsertBefore", func(l List[int], hs []ListElement[int], a, b int) { l.InsertBefore(100+a, hs[b]) }, func(l *stdlist.List, hs []*stdlist.Element, a, b int) { l.InsertBefore(100+a, hs[b]) }},
		{"InsertAfter", func(l List[int], hs []ListElement[int], a, b int) { l.InsertAfter(200+a, hs[b]) }, func(l *stdlist.List, hs []*stdlist.Element, a, b int) { l.InsertAfter(200+a, hs[b]) }},
	}
	for _, threadSafe := range []bool{false, true} {
		var seqs [][][3]int
		for i := range ops {
			for a := 0; a < 4; a++ {
				for b := 0; b < 4; b++ {
					seqs = append(seqs, [][3]int{{i, a, b}})
					for j := range ops {
						seqs = append(seqs, [][3]int{{i, a, b}, {j, (a + 1) % 4, (b + 2) % 4}})
					}
				}
			}
		}
		for _, seq := range seqs {
			ours, other := NewList[int](threadSafe), NewList[int](threadSafe)
			std, stdOther := stdlist.New(), stdlist.New()
			var hs []ListElement[int]
			var shs []*stdlist.Element
			for v := 1; v <= 3; v++ {
				hs = append(hs, ours.PushBack(v))
				shs = append(shs, std.PushBack(v))
			}
			hs = append(hs, other.PushBack(9)) // a handle of another list
			shs = append(shs, stdOther.PushBack(9))
			desc := ""
			for _, st := range seq {
				ops[st[0]].ours(ours, hs, st[1], st[2])
				ops[st[0]].std(std, shs, st[1], st[2])
				desc += fmt.Sprintf("%s(h%d,h%d) ", ops[st[0]].name, st[1], st[2])
			}
			var got, want []int
			for e := ours.Front(); e != nil; e = e.Next() {
				got = append(got, e.Value())
			}
			for e := std.Front(); e != nil; e = e.Next() {
				want = append(want, e.Value.(int))
			}
			if fmt.Sprint(got) != fmt.Sprint(want) || ours.Len() != std.Len() {
				t.Fatalf("REPLAY-VIOLATION ds.List (threadSafe=%v) after PushBack 1,2,3; %s: order %v len %d, container/list gives %v len %d", threadSafe, desc, got, ours.Len(), want, std.Len())
			}
		}
	}
}
`
	return "ds", ".", src, true
}

// ---------- C01 / C03 (Serializer / Deserializer primitives) ----------
func init() { replayGens["c01"] = replayC01; replayGens["c03"] = replayC01 }

func replayC01(o *Obligation) (string, string, string, bool) {
	if strings.HasPrefix(o.Name, "stream.") {
		return "serializer", "stream", streamReplay(o.Kind == "make" || o.Kind == "alloc"), true
	}
	if strings.HasPrefix(o.Name, "serix.") {
		return "serializer", "serix", replaySerixRoundTrip, true
	}
	if !strings.HasPrefix(o.Name, "v2.") {
		return "", "", "", false
	}
	src := `package serializer

import (
	"bytes"
	"fmt"
	"math/big"
	"testing"
	"time"
)

// oracle: an independent reference encoder (hand-written little-endian layout) and read-back, over
// boundary values of every primitive the contracts cover.
func refLE(v uint64, n int) []byte {
	out := make([]byte, n)
	for i := 0; i < n; i++ {
		out[i] = byte(v >> (8 * uint(i)))
	}
	return out
}

func TestVerifReplay(t *testing.T) {
	id := func(err error) error { return err }
	fail := func(format string, a ...any) { t.Fatalf("REPLAY-VIOLATION "+format, a...) }
	u64s := []uint64{0, 1, 0x7f, 0x80, 0xff, 0x100, 0x1234, 0x7fff, 0x8000, 0xffff, 0x10000, 0x12345678, 0x7fffffff, 0x80000000, 0xffffffff, 0x100000000, 0x0123456789abcdef, 0x7fffffffffffffff, 0x8000000000000000, 0xffffffffffffffff}
	for _, v := range u64s {
		type tc struct {
			name string
			val  any
			n    int
			read func(d *Deserializer) (any, int, error)
		}
		cases := []tc{
			{"uint8", uint8(v), 1, func(d *Deserializer) (any, int, error) { var x uint8; n, err := d.ReadNum(&x, id).Done(); return x, n, err }},
			{"int8", int8(v), 1, func(d *Deserializer) (any, int, error) { var x int8; n, err := d.ReadNum(&x, id).Done(); return x, n, err }},
			{"uint16", uint16(v), 2, func(d *Deserializer) (any, int, error) { var x uint16; n, err := d.ReadNum(&x, id).Done(); return x, n, err }},
			{"int16", int16(v), 2, func(d *Deserializer) (any, int, error) { var x int16; n, err := d.ReadNum(&x, id).Done(); return x, n, err }},
			{"uint32", uint32(v), 4, func(d *Deserializer) (any, int, error) { var x uint32; n, err := d.ReadNum(&x, id).Done(); return x, n, err }},
			{"int32", int32(v), 4, func(d *Deserializer) (any, int, error) { var x int32; n, err := d.ReadNum(&x, id).Done(); return x, n, err }},
			{"uint64", uint64(v), 8, func(d *Deserializer) (any, int, error) { var x uint64; n, err := d.ReadNum(&x, id).Done(); return x, n, err }},
			{"int64", int64(v), 8, func(d *Deserializer) (any, int, error) { var x int64; n, err := d.ReadNum(&x, id).Done(); return x, n, err }},
		}
		for _, c := range cases {
			b, err := NewSerializer().WriteNum(c.val, id).Serialize()
			want := refLE(v, c.n)
			if err != nil || !bytes.Equal(b, want) {
				fail("WriteNum(%s %v) = %x, %v; reference layout %x", c.name, c.val, b, err, want)
			}
			got, n, err := c.read(NewDeserializer(b))
			if err != nil || n != c.n || got != c.val {
				fail("ReadNum(%s) of %x = %v, %d, %v; written value %v", c.name, b, got, n, err, c.val)
			}
		}
		// payload length marker
		if v <= 0xffffffff {
			b, err := NewSerializer().WritePayloadLength(int(v), id).Serialize()
			if err != nil || !bytes.Equal(b, refLE(v, 4)) {
				fail("WritePayloadLength(%d) = %x, %v; reference layout %x", v, b, err, refLE(v, 4))
			}
			d := NewDeserializer(b)
			l, err := d.ReadPayloadLength()
			if err != nil || uint64(l) != v {
				fail("ReadPayloadLength of %x = %d, %v; written %d", b, l, err, v)
			}
		}
	}
	for _, v := range []bool{false, true} {
		b, err := NewSerializer().WriteBool(v, id).Serialize()
		want := []byte{0}
		if v {
			want = []byte{1}
		}
		if err != nil || !bytes.Equal(b, want) {
			fail("WriteBool(%v) = %x, %v", v, b, err)
		}
		var x bool
		n, err := NewDeserializer(b).ReadBool(&x, id).Done()
		if err != nil || n != 1 || x != v {
			fail("ReadBool of %x = %v, %d, %v", b, x, n, err)
		}
	}
	for bb := 2; bb < 256; bb += 51 { // non-canonical bools are rejected
		var x bool
		if _, err := NewDeserializer([]byte{byte(bb)}).ReadBool(&x, id).Done(); err == nil {
			fail("ReadBool accepted the non-canonical byte %#x", bb)
		}
	}
	// a boolean is not a number: ReadNum refuses a *bool destination
	func() {
		defer func() { _ = recover() }()
		var flag bool
		n, err := NewDeserializer([]byte{2}).ReadNum(&flag, id).Done()
		fail("ReadNum into a *bool consumed %d byte(s) of the non-canonical boolean byte 0x02 (value %v, err %v): booleans go through ReadBool, which accepts 0 and 1 only", n, flag, err)
	}()
	// strings are length-prefixed by their byte length, whatever their characters
	for _, str := range []string{"h\u00e9llo w\u00f6rld \u2713", "\u65e5\u672c\u8a9e", "a\U0001F600b"} {
		sb, err := NewSerializer().WriteString(str, SeriLengthPrefixTypeAsByte, id, 0, 0).Serialize()
		want := append([]byte{byte(len(str))}, str...)
		if err != nil || !bytes.Equal(sb, want) {
			fail("WriteString(%q): % x, err %v; the layout is the byte length %d followed by the UTF-8 bytes", str, sb, err, len(str))
		}
		var back string
		if n, err := NewDeserializer(sb).ReadString(&back, SeriLengthPrefixTypeAsByte, id, 0, 0).Done(); err != nil || n != len(sb) || back != str {
			fail("ReadString(WriteString(%q)) = %q, consumed %d of %d, err %v", str, back, n, len(sb), err)
		}
	}
	// variable-length byte slices and strings: every prefix width at its boundary lengths
	widths := map[SeriLengthPrefixType]int{SeriLengthPrefixTypeAsByte: 1, SeriLengthPrefixTypeAsUint16: 2, SeriLengthPrefixTypeAsUint32: 4}
	maxes := map[SeriLengthPrefixType]int{SeriLengthPrefixTypeAsByte: 255, SeriLengthPrefixTypeAsUint16: 65535, SeriLengthPrefixTypeAsUint32: 1 << 32}
	for lt, w := range widths {
		for _, l := range []int{0, 1, 2, 254, 255, 256, 257, 65534, 65535, 65536, 65537} {
			data := make([]byte, l)
			for i := range data {
				data[i] = byte(i*7 + 3)
			}
			b, err := NewSerializer().WriteVariableByteSlice(data, lt, id, 0, 0).Serialize()
			if l > maxes[lt] {
				if err == nil {
					fail("WriteVariableByteSlice(len %d, prefix width %d) succeeded: %d bytes", l, w, len(b))
				}
			} else {
				want := append(refLE(uint64(l), w), data...)
				if err != nil || !bytes.Equal(b, want) {
					fail("WriteVariableByteSlice(len %d, prefix width %d): %d bytes, err %v; reference layout has %d bytes, prefix %x vs %x", l, w, len(b), err, len(want), b[:min(len(b), w)], want[:w])
				}
				var out []byte
				n, err := NewDeserializer(b).ReadVariableByteSlice(&out, lt, id, 0, 0).Done()
				if err != nil || n != len(b) || !bytes.Equal(out, data) {
					fail("ReadVariableByteSlice(len %d, prefix width %d) read back %d bytes, consumed %d of %d, err %v", l, w, len(out), n, len(b), err)
				}
				sb, err := NewSerializer().WriteString(string(data), lt, id, 0, 0).Serialize()
				if err != nil || !bytes.Equal(sb, want) {
					fail("WriteString(len %d, prefix width %d): %d bytes, err %v; reference layout has %d bytes", l, w, len(sb), err, len(want))
				}
				var s string
				n, err = NewDeserializer(sb).ReadString(&s, lt, id, 0, 0).Done()
				if err != nil || n != len(sb) || s != string(data) {
					fail("ReadString(len %d, prefix width %d) read back %d bytes, consumed %d of %d, err %v", l, w, len(s), n, len(sb), err)
				}
			}
			// length bounds
			if l > 1 && l <= maxes[lt] { // maxLen 0 means unbounded
				if _, err := NewSerializer().WriteVariableByteSlice(data, lt, id, 0, l-1).Serialize(); err == nil {
					fail("WriteVariableByteSlice(len %d) accepted with maxLen %d", l, l-1)
				}
			}
			if l <= maxes[lt] {
				if _, err := NewSerializer().WriteVariableByteSlice(data, lt, id, l+1, 0).Serialize(); err == nil {
					fail("WriteVariableByteSlice(len %d) accepted with minLen %d", l, l+1)
				}
			}
		}
	}
	// timestamps: nanoseconds since the epoch, saturated to [0, MaxInt64]
	for _, tc := range []struct {
		sec, nsec int64
		want      uint64
	}{
		{0, 0, 0}, {1, 5, 1000000005}, {-1, 0, 0}, {-1, 999999999, 0}, {1700000000, 123456789, 1700000000123456789},
		{9223372036, 854775807, 9223372036854775807}, {9223372036, 854775808, 9223372036854775807}, {9223372036, 999999999, 9223372036854775807},
		{9223372037, 0, 9223372036854775807}, {1 << 40, 0, 9223372036854775807},
	} {
		tm := time.Unix(tc.sec, tc.nsec)
		if got := TimeToUint64(tm); got != tc.want {
			fail("TimeToUint64(time.Unix(%d, %d)) = %d, documented saturation gives %d", tc.sec, tc.nsec, got, tc.want)
		}
		tb, err := NewSerializer().WriteTime(tm, id).Serialize()
		if err != nil || !bytes.Equal(tb, refLE(tc.want, 8)) {
			fail("WriteTime(time.Unix(%d, %d)) = %x, %v; reference layout %x", tc.sec, tc.nsec, tb, err, refLE(tc.want, 8))
		}
		var back time.Time
		n, err := NewDeserializer(tb).ReadTime(&back, id).Done()
		if err != nil || n != 8 || uint64(back.UnixNano()) != tc.want {
			fail("ReadTime of %x = %v (%d ns), %d, %v; written %d ns", tb, back, back.UnixNano(), n, err, tc.want)
		}
	}
	// an in-range stamp inside the last representable second is read exactly
	{
		var back time.Time
		const ns = uint64(9223372036500000000)
		if _, err := NewDeserializer(refLE(ns, 8)).ReadTime(&back, id).Done(); err != nil || uint64(back.UnixNano()) != ns {
			fail("ReadTime of %x = %d ns, %v; the encoded instant is %d ns (inside the int64 range)", refLE(ns, 8), back.UnixNano(), err, ns)
		}
	}
	// array-order validators compare every element with its predecessor
	for _, mk := range []func() ElementValidationFunc{(&ArrayRules{}).LexicalOrderValidator, (&ArrayRules{}).LexicalOrderWithoutDupsValidator} {
		for _, seq := range [][]byte{{1, 3, 2}, {2, 3, 1}, {1, 2, 3, 0}} {
			v := mk()
			var firstErr = -1
			for i, e := range seq {
				if err := v(i, []byte{e}); err != nil {
					firstErr = i
					break
				}
			}
			want := -1
			for i := 1; i < len(seq); i++ {
				if seq[i] < seq[i-1] {
					want = i
					break
				}
			}
			if firstErr != want {
				fail("lexical order validator on %v: first rejected index %d, reference %d", seq, firstErr, want)
			}
		}
	}
	// uint256: little-endian, 32 bytes; decoding leaves the input untouched
	for _, hex := range []string{"0", "1", "ff", "100", "0102030405060708090a0b0c0d0e0f101112131415161718191a1b1c1d1e1f20"} {
		v, _ := new(big.Int).SetString(hex, 16)
		ub, err := NewSerializer().WriteUint256(v, id).Serialize()
		be := v.FillBytes(make([]byte, 32))
		want := make([]byte, 32)
		for i := range be {
			want[31-i] = be[i]
		}
		if err != nil || !bytes.Equal(ub, want) {
			fail("WriteUint256(0x%s) = %x, %v; reference layout %x", hex, ub, err, want)
		}
		in := append([]byte{}, ub...)
		var out *big.Int
		n, err := NewDeserializer(in).ReadUint256(&out, id).Done()
		if err != nil || n != 32 || out.Cmp(v) != 0 {
			fail("ReadUint256 of %x = %v, %d, %v; written 0x%s", ub, out, n, err, hex)
		}
		if !bytes.Equal(in, ub) {
			fail("ReadUint256 changed its input: %x became %x", ub, in)
		}
	}
	// sequencing: fields are laid out back to back
	b, err := NewSerializer().WriteNum(uint16(0xbeef), id).WriteBool(true, id).WriteNum(uint32(0xdeadc0de), id).WriteByte(7, id).WriteBytes([]byte{1, 2, 3}, id).Serialize()
	want := []byte{0xef, 0xbe, 1, 0xde, 0xc0, 0xad, 0xde, 7, 1, 2, 3}
	if err != nil || !bytes.Equal(b, want) {
		fail("chained writes = %x, %v; reference layout %x", b, err, want)
	}
	var a uint16
	var bo bool
	var c uint32
	var by byte
	var bs []byte
	n, err := NewDeserializer(b).ReadNum(&a, id).ReadBool(&bo, id).ReadNum(&c, id).ReadByte(&by, id).ReadBytes(&bs, 3, id).Done()
	if err != nil || n != len(b) || a != 0xbeef || !bo || c != 0xdeadc0de || by != 7 || !bytes.Equal(bs, []byte{1, 2, 3}) {
		fail("chained reads of %x = %x %v %x %d %x, consumed %d, err %v", b, a, bo, c, by, bs, n, err)
	}
	_ = fmt.Sprint
}
`
	return "serializer", ".", src, true
}

// stream helpers: every Write*/Read* pair written into a buffer and read back through readers that split
// their reads differently; hostile size prefixes must neither panic nor drive an allocation.
const replayStreamSrc = `package stream

import (
	"bytes"
	"encoding/binary"
	"io"
	"runtime"
	"testing"
	"testing/iotest"

	"github.com/iotaledger/hive.go/serializer/v2"
)

type chunkReader struct {
	r io.Reader
	n int
}

func (c *chunkReader) Read(p []byte) (int, error) {
	if len(p) > c.n {
		p = p[:c.n]
	}
	return c.r.Read(p)
}

// endless: a reader that claims nothing about its length and delivers zeros forever
type endless struct{ delivered int }

func (e *endless) Read(p []byte) (int, error) {
	if len(p) > 512 {
		p = p[:512]
	}
	for i := range p {
		p[i] = 0
	}
	e.delivered += len(p)
	if e.delivered > 1<<20 {
		return 0, io.ErrUnexpectedEOF
	}
	return len(p), nil
}

func TestVerifReplay(t *testing.T) {
	if hostileFirst {
		hostileChecks(t)
		roundTripChecks(t)
	} else {
		roundTripChecks(t)
		hostileChecks(t)
	}
}

func roundTripChecks(t *testing.T) {
	fail := func(format string, a ...any) { t.Fatalf("REPLAY-VIOLATION "+format, a...) }
	readers := map[string]func(b []byte) io.Reader{
		"bytes.Reader":        func(b []byte) io.Reader { return bytes.NewReader(b) },
		"iotest.OneByteReader": func(b []byte) io.Reader { return iotest.OneByteReader(bytes.NewReader(b)) },
		"iotest.HalfReader":    func(b []byte) io.Reader { return iotest.HalfReader(bytes.NewReader(b)) },
		"iotest.DataErrReader": func(b []byte) io.Reader { return iotest.DataErrReader(bytes.NewReader(b)) },
		"3-byte chunks":        func(b []byte) io.Reader { return &chunkReader{bytes.NewReader(b), 3} },
	}
	payload := make([]byte, 300)
	for i := range payload {
		payload[i] = byte(i*13 + 5)
	}
	for name, mk := range readers {
		// Write / Read
		var buf bytes.Buffer
		w := io.Writer(struct{ io.Writer }{&buf})
		if err := Write(w, uint8(0xab)); err != nil { fail("Write: %v", err) }
		if err := Write(w, uint16(0xbeef)); err != nil { fail("Write: %v", err) }
		if err := Write(w, uint32(0xdeadc0de)); err != nil { fail("Write: %v", err) }
		if err := Write(w, uint64(0x0123456789abcdef)); err != nil { fail("Write: %v", err) }
		if err := Write(w, int32(-2)); err != nil { fail("Write: %v", err) }
		want := []byte{0xab, 0xef, 0xbe, 0xde, 0xc0, 0xad, 0xde, 0xef, 0xcd, 0xab, 0x89, 0x67, 0x45, 0x23, 0x01, 0xfe, 0xff, 0xff, 0xff}
		if !bytes.Equal(buf.Bytes(), want) {
			fail("Write[T] layout %x, reference %x", buf.Bytes(), want)
		}
		r := mk(buf.Bytes())
		a, err := Read[uint8](r)
		if err != nil || a != 0xab { fail("Read[uint8] through %s = %x, %v", name, a, err) }
		b, err := Read[uint16](r)
		if err != nil || b != 0xbeef { fail("Read[uint16] through %s = %x, %v", name, b, err) }
		c, err := Read[uint32](r)
		if err != nil || c != 0xdeadc0de { fail("Read[uint32] through %s = %x, %v", name, c, err) }
		d, err := Read[uint64](r)
		if err != nil || d != 0x0123456789abcdef { fail("Read[uint64] through %s = %x, %v", name, d, err) }
		e, err := Read[int32](r)
		if err != nil || e != -2 { fail("Read[int32] through %s = %d, %v", name, e, err) }
		// WriteBytes / ReadBytes
		buf.Reset()
		if err := WriteBytes(w, payload); err != nil { fail("WriteBytes: %v", err) }
		got, err := ReadBytes(mk(buf.Bytes()), len(payload))
		if err != nil || !bytes.Equal(got, payload) {
			fail("ReadBytes(%d) through %s: %d bytes, err %v (the stream holds all %d bytes)", len(payload), name, len(got), err, len(payload))
		}
		// WriteBytesWithSize / ReadBytesWithSize, every prefix width
		for _, lt := range []serializer.SeriLengthPrefixType{serializer.SeriLengthPrefixTypeAsByte, serializer.SeriLengthPrefixTypeAsUint16, serializer.SeriLengthPrefixTypeAsUint32, serializer.SeriLengthPrefixTypeAsUint64} {
			for _, l := range []int{0, 1, 5, 255, 256, 300} {
				if lt == serializer.SeriLengthPrefixTypeAsByte && l > 255 {
					continue
				}
				buf.Reset()
				if err := WriteBytesWithSize(w, payload[:l], lt); err != nil { fail("WriteBytesWithSize(%d): %v", l, err) }
				got, err := ReadBytesWithSize(mk(buf.Bytes()), lt)
				if err != nil || !bytes.Equal(got, payload[:l]) {
					fail("ReadBytesWithSize(len %d, prefix type %d) through %s: %d bytes, err %v", l, lt, name, len(got), err)
				}
				buf.Reset()
				if err := WriteObjectWithSize(w, payload[:l], lt, func(b []byte) ([]byte, error) { return b, nil }); err != nil { fail("WriteObjectWithSize: %v", err) }
				obj, err := ReadObjectWithSize(mk(buf.Bytes()), lt, func(b []byte) ([]byte, int, error) { return b, len(b), nil })
				if err != nil || !bytes.Equal(obj, payload[:l]) {
					fail("ReadObjectWithSize(len %d, prefix type %d) through %s: %d bytes, err %v", l, lt, name, len(obj), err)
				}
			}
		}
		// collection of sized items
		buf.Reset()
	}
	// WriteCollection into a fresh and into a pre-sized seekable target (bytes behind the write position), followed by a
	// trailer: the stream reads back as count, elements, trailer
	for _, initial := range []int{0, 3, 64} {
		for _, lt := range []serializer.SeriLengthPrefixType{serializer.SeriLengthPrefixTypeAsByte, serializer.SeriLengthPrefixTypeAsUint16, serializer.SeriLengthPrefixTypeAsUint32, serializer.SeriLengthPrefixTypeAsUint64} {
			for _, n := range []int{0, 1, 5} {
				ws := NewByteBuffer(initial)
				if err := WriteCollection(ws, lt, func() (int, error) {
					for i := 0; i < n; i++ {
						if err := Write(ws, uint16(1000+i)); err != nil {
							return 0, err
						}
					}
					return n, nil
				}); err != nil {
					fail("WriteCollection(%d elements, prefix type %d) into NewByteBuffer(%d): %v", n, lt, initial, err)
				}
				if err := Write(ws, uint32(0xfeedbeef)); err != nil {
					fail("Write after WriteCollection: %v", err)
				}
				data, _ := ws.Bytes()
				r := bytes.NewReader(data)
				seen := 0
				if err := ReadCollection(r, lt, func(i int) error {
					v, err := Read[uint16](r)
					if err != nil || int(v) != 1000+i {
						fail("element %d of a collection of %d written into NewByteBuffer(%d) reads back as %d, %v (stream % x)", i, n, initial, v, err, data)
					}
					seen++
					return nil
				}); err != nil || seen != n {
					fail("ReadCollection of %d elements written into NewByteBuffer(%d): %d elements, %v (stream % x)", n, initial, seen, err, data)
				}
				if tr, err := Read[uint32](r); err != nil || tr != 0xfeedbeef {
					fail("what was written after a collection of %d elements (prefix type %d, target NewByteBuffer(%d)) does not follow it: read %#x, %v (stream % x)", n, lt, initial, tr, err, data)
				}
			}
		}
	}
}

// hostile size prefixes: no panic, no allocation in proportion to the prefix
func hostileChecks(t *testing.T) {
	fail := func(format string, a ...any) { t.Fatalf("REPLAY-VIOLATION "+format, a...) }
	hostile := func(desc string, f func()) {
		defer func() {
			if r := recover(); r != nil {
				fail("%s panicked: %v", desc, r)
			}
		}()
		var m0, m1 runtime.MemStats
		runtime.GC()
		runtime.ReadMemStats(&m0)
		f()
		runtime.ReadMemStats(&m1)
		if d := m1.TotalAlloc - m0.TotalAlloc; d > 64<<20 {
			fail("%s allocated %d MiB for an input of a few bytes", desc, d>>20)
		}
	}
	pre := make([]byte, 8)
	binary.LittleEndian.PutUint64(pre, 0xffffffffffffffff)
	hostile("ReadBytesWithSize(uint64 prefix 0xffffffffffffffff, no data)", func() { _, _ = ReadBytesWithSize(bytes.NewReader(pre), serializer.SeriLengthPrefixTypeAsUint64) })
	binary.LittleEndian.PutUint64(pre, 0x8000000000000000)
	hostile("ReadBytesWithSize(uint64 prefix 1<<63, no data)", func() { _, _ = ReadBytesWithSize(bytes.NewReader(pre), serializer.SeriLengthPrefixTypeAsUint64) })
	pre4 := []byte{0xff, 0xff, 0xff, 0x3f}
	hostile("ReadBytesWithSize(uint32 prefix 0x3fffffff = 1 GiB, no data)", func() { _, _ = ReadBytesWithSize(bytes.NewReader(pre4), serializer.SeriLengthPrefixTypeAsUint32) })
	hostile("ReadBytes(-1)", func() { _, _ = ReadBytes(bytes.NewReader(nil), -1) })
	hostile("ReadObjectWithSize(uint32 prefix 1 GiB, no data)", func() {
		_, _ = ReadObjectWithSize(bytes.NewReader(pre4), serializer.SeriLengthPrefixTypeAsUint32, func(b []byte) ([]byte, int, error) { return b, len(b), nil })
	})
}
` + ""

func streamReplay(hostileFirst bool) string {
	return replayStreamSrc + fmt.Sprintf("\nconst hostileFirst = %v\n", hostileFirst)
}

// ---------- C20 (daemon) ----------
func init() { replayGens["c20"] = replayC20 }

func replayC20(o *Obligation) (string, string, string, bool) {
	if !strings.HasPrefix(o.Name, "daemon.") {
		return "", "", "", false
	}
	src := `package daemon

import (
	"context"
	"fmt"
	"sync"
	"sync/atomic"
	"testing"
	"time"
)

// oracle: (1) shutdown order - a worker's context is cancelled only after every worker of a higher order has
// returned, ShutdownAndWait returns after all of them; (2) registrations racing with ShutdownAndWait: every
// worker that BackgroundWorker accepted has returned when ShutdownAndWait returns (bounded stress, the
// interleaving is not forced).
func TestVerifReplay(t *testing.T) {
	// (0) Run returns only after every started worker has returned (workers of several orders, slow to return)
	{
		d := New()
		var returnedWorkers atomic.Int32
		for i, o := range []int{2, 0, 2, -3} {
			_ = d.BackgroundWorker(fmt.Sprintf("r%d", i), func(ctx context.Context) {
				<-ctx.Done()
				time.Sleep(150 * time.Millisecond)
				returnedWorkers.Add(1)
			}, o)
		}
		runReturned := make(chan int32, 1)
		go func() { d.Run(); runReturned <- returnedWorkers.Load() }()
		for !d.IsRunning() {
			time.Sleep(time.Millisecond)
		}
		time.Sleep(20 * time.Millisecond)
		go d.ShutdownAndWait()
		select {
		case n := <-runReturned:
			if n != 4 {
				t.Fatalf("REPLAY-VIOLATION Run returned when %d of 4 started workers had returned", n)
			}
		case <-time.After(5 * time.Second):
			t.Fatalf("REPLAY-VIOLATION Run did not return within 5s of the shutdown")
		}
	}
	// (1) ordering with slow workers, ties, gaps, negative orders, and one worker that finished early
	for round := 0; round < 20; round++ {
		d := New()
		orders := []int{5, 5, 3, -1, 0, 7, 3, 100, -50}
		var mu sync.Mutex
		returned := map[int]int{} // order -> workers returned
		total := map[int]int{}
		violation := ""
		for i, o := range orders {
			o := o
			total[o]++
			_ = d.BackgroundWorker(fmt.Sprintf("w%d", i), func(ctx context.Context) {
				<-ctx.Done()
				mu.Lock()
				for ho, n := range total {
					if ho > o && returned[ho] < n && violation == "" {
						violation = fmt.Sprintf("worker of order %d was cancelled while only %d of %d workers of order %d had returned", o, returned[ho], n, ho)
					}
				}
				mu.Unlock()
				time.Sleep(time.Duration(1+(o+50)%3) * time.Millisecond)
				mu.Lock()
				returned[o]++
				mu.Unlock()
			}, o)
		}
		_ = d.BackgroundWorker("early", func(ctx context.Context) {}, 4)
		d.Start()
		time.Sleep(time.Millisecond)
		d.ShutdownAndWait()
		mu.Lock()
		for o, n := range total {
			if returned[o] != n && violation == "" {
				violation = fmt.Sprintf("ShutdownAndWait returned while %d of %d workers of order %d were still running", n-returned[o], n, o)
			}
		}
		v := violation
		mu.Unlock()
		if v != "" {
			t.Fatalf("REPLAY-VIOLATION %s", v)
		}
	}
	// (2) registrations racing with shutdown
	for iter := 0; iter < 300; iter++ {
		d := New()
		_ = d.BackgroundWorker("base", func(ctx context.Context) { <-ctx.Done() }, 1)
		d.Start()
		var accepted []string
		panicked := ""
		var finished sync.Map
		var mu sync.Mutex
		var stop atomic.Bool
		var wg sync.WaitGroup
		for g := 0; g < 4; g++ {
			wg.Add(1)
			go func(g int) {
				defer wg.Done()
				defer func() {
					if r := recover(); r != nil {
						mu.Lock()
						panicked = fmt.Sprint(r)
						mu.Unlock()
					}
				}()
				for i := 0; !stop.Load() && i < 100; i++ {
					name := fmt.Sprintf("w%d-%d", g, i)
					err := d.BackgroundWorker(name, func(ctx context.Context) { <-ctx.Done(); finished.Store(name, true) }, g+2)
					if err == nil {
						mu.Lock()
						accepted = append(accepted, name)
						mu.Unlock()
					}
				}
			}(g)
		}
		time.Sleep(time.Duration(iter%5) * 50 * time.Microsecond)
		returnedCh := make(chan struct{})
		go func() { d.ShutdownAndWait(); close(returnedCh) }()
		select {
		case <-returnedCh:
		case <-time.After(3 * time.Second):
			t.Fatalf("REPLAY-VIOLATION a registration racing with ShutdownAndWait (iteration %d): ShutdownAndWait did not return within 3s (it waits for a worker that was registered behind its snapshot and is never cancelled)", iter)
		}
		stop.Store(true)
		wg.Wait()
		time.Sleep(2 * time.Millisecond)
		mu.Lock()
		if panicked != "" {
			mu.Unlock()
			t.Fatalf("REPLAY-VIOLATION a registration racing with ShutdownAndWait (iteration %d): BackgroundWorker panicked: %s", iter, panicked)
		}
		for _, n := range accepted {
			if _, ok := finished.Load(n); !ok {
				mu.Unlock()
				t.Fatalf("REPLAY-VIOLATION a registration racing with ShutdownAndWait (iteration %d): BackgroundWorker(%s) returned nil, but the worker is still running after ShutdownAndWait returned (it was never cancelled)", iter, n)
			}
		}
		mu.Unlock()
	}

	// (3) a daemon that was shut down before it was started stays stopped: Start must not run any registered worker
	{
		d := New()
		started := make(chan struct{}, 2)
		release := make(chan struct{})
		handler := func(ctx context.Context) {
			started <- struct{}{}
			select {
			case <-ctx.Done():
			case <-release:
			}
		}
		_ = d.BackgroundWorker("A", handler, 2)
		_ = d.BackgroundWorker("B", handler, 1)
		d.ShutdownAndWait()
		d.Start()
		select {
		case <-started:
			close(release)
			t.Fatalf("REPLAY-VIOLATION BackgroundWorker A, B; ShutdownAndWait; Start: a background worker was started after the daemon had been shut down (nobody can stop it any more)")
		case <-time.After(200 * time.Millisecond):
		}
		close(release)
	}
}
`
	return "app", "daemon", src, true
}

// ---------- C15 (value notifier) ----------
func init() { replayGens["c15"] = replayC15 }

func replayC15(o *Obligation) (string, string, string, bool) {
	if strings.HasPrefix(o.Name, "promise.") {
		src := `package promise

import (
	"sync"
	"sync/atomic"
	"testing"
)

// oracle: every callback of a one-shot event runs exactly once - registered before, during or after Trigger, by any
// number of goroutines (bounded stress: the interleaving is not forced)
func TestVerifReplay(t *testing.T) {
	for round := 0; round < 150; round++ {
		const goroutines, each = 8, 200
		e := NewEvent()
		e1 := NewEvent1[int]()
		calls := make([]atomic.Int32, 2*goroutines*each)
		var wg sync.WaitGroup
		for g := 0; g < goroutines; g++ {
			wg.Add(1)
			go func(g int) {
				defer wg.Done()
				for i := 0; i < each; i++ {
					k := g*each + i
					e.OnTrigger(func() { calls[k].Add(1) })
					e1.OnTrigger(func(int) { calls[goroutines*each+k].Add(1) })
					if round%2 == 1 && g == 0 && i == each/2 {
						e.Trigger()
						e1.Trigger(7)
					}
				}
			}(g)
		}
		wg.Wait()
		e.Trigger()
		e1.Trigger(7)
		missed, twice := 0, 0
		for k := range calls {
			switch calls[k].Load() {
			case 0:
				missed++
			case 1:
			default:
				twice++
			}
		}
		if missed != 0 || twice != 0 {
			t.Fatalf("REPLAY-VIOLATION promise events, round %d: of %d callbacks registered by %d goroutines, %d were never called and %d were called more than once", round, len(calls), goroutines, missed, twice)
		}
	}
}
`
		return "runtime", "promise", src, true
	}
	if strings.HasPrefix(o.Name, "event.") {
		src := `package event

import (
	"fmt"
	"testing"
)

// oracle: each Trigger calls every hook that is attached and not unhooked exactly once, in attachment order - also
// after hooks were removed (by themselves, by their trigger limit, or from outside) and new ones attached
func TestVerifReplay(t *testing.T) {
	var log []string
	e := New1[int]()
	mk := func(name string) func(int) { return func(v int) { log = append(log, fmt.Sprintf("%s%d", name, v)) } }
	a := e.Hook(mk("A"))
	e.Hook(mk("B"))
	e.Trigger(1)
	a.Unhook()
	c := e.Hook(mk("C"))
	e.Trigger(2)
	e.Hook(mk("D"), WithMaxTriggerCount(1))
	var self *Hook[func(int)]
	self = e.Hook(func(v int) { log = append(log, fmt.Sprintf("S%d", v)); self.Unhook() })
	e.Hook(mk("E"))
	e.Trigger(3)
	e.Trigger(4)
	c.Unhook()
	e.Hook(mk("F"))
	e.Trigger(5)
	want := "[A1 B1 B2 C2 B3 C3 D3 S3 E3 B4 C4 E4 B5 E5 F5]"
	if got := fmt.Sprint(log); got != want {
		t.Fatalf("REPLAY-VIOLATION event hooks: the calls were %s, expected %s", got, want)
	}
	// linking: an event fires once per trigger of its current target and no longer for a former one
	log = nil
	t1, t2, l := New1[int](), New1[int](), New1[int]()
	l.Hook(mk("L"))
	l.LinkTo(t1)
	t1.Trigger(1)
	l.LinkTo(t2)
	t1.Trigger(2)
	t2.Trigger(3)
	l.LinkTo(nil)
	t2.Trigger(4)
	if got := fmt.Sprint(log); got != "[L1 L3]" {
		t.Fatalf("REPLAY-VIOLATION linked event: the calls were %s, expected [L1 L3]", got)
	}
}
`
		return "runtime", "event", src, true
	}
	if !strings.HasPrefix(o.Name, "valuenotifier.") {
		return "", "", "", false
	}
	src := `package valuenotifier

import (
	"context"
	"testing"
	"time"
)

// oracle: a listener's Wait succeeds only if Notify for its value was called after the listener was created
// (and before it was deregistered). All interleavings of up to 6 operations on two listeners of one value.
func TestVerifReplay(t *testing.T) {
	type state struct {
		n        *Notifier[string]
		ls       [3]*Listener
		created  [3]bool
		notified [3]bool // Notify was called after creation and before deregistration
		dereg    [3]bool
	}
	ops := []string{"L0", "L1", "L2", "N", "D0", "D1", "D2"}
	var run func(seq []int)
	check := func(seq []int) {
		s := &state{n: New[string]()}
		desc := ""
		for _, op := range seq {
			name := ops[op]
			desc += name + " "
			switch name[0] {
			case 'L':
				i := int(name[1] - '0')
				if s.created[i] {
					return // each listener is created once
				}
				s.ls[i] = s.n.Listener("a")
				s.created[i] = true
			case 'N':
				s.n.Notify("a")
				for i := range s.ls {
					if s.created[i] && !s.dereg[i] {
						s.notified[i] = true
					}
				}
			case 'D':
				i := int(name[1] - '0')
				if !s.created[i] || s.dereg[i] {
					return
				}
				s.ls[i].Deregister()
				s.dereg[i] = true
			}
		}
		for i := range s.ls {
			if !s.created[i] || s.dereg[i] {
				continue
			}
			ctx, cancel := context.WithTimeout(context.Background(), 2*time.Millisecond)
			err := s.ls[i].Wait(ctx)
			cancel()
			if err == nil && !s.notified[i] {
				t.Fatalf("REPLAY-VIOLATION after %s: Wait of listener %d returned nil although Notify was not called since that listener was created", desc, i)
			}
			if err != nil && s.notified[i] {
				t.Fatalf("REPLAY-VIOLATION after %s: Wait of listener %d returned %v although Notify was called after it was created", desc, i, err)
			}
		}
	}
	run = func(seq []int) {
		if len(seq) > 0 {
			check(seq)
		}
		if len(seq) == 5 {
			return
		}
		for op := range ops {
			run(append(append([]int{}, seq...), op))
		}
	}
	run(nil)
}
`
	return "runtime", "valuenotifier", src, true
}

// ---------- C16 (worker pool) ----------
func init() { replayGens["c16"] = replayC16 }

func replayC16(o *Obligation) (string, string, string, bool) {
	if !strings.HasPrefix(o.Name, "workerpool.") {
		return "", "", "", false
	}
	if strings.HasPrefix(o.Name, "workerpool.WorkerPool.Start::") {
		src := `package workerpool

import (
	"testing"
	"time"
)

// oracle: a pool can be started again after Shutdown - Start returns, whatever the previous life is still doing, and the
// restarted pool runs the tasks it accepts
func TestVerifReplay(t *testing.T) {
	// first with the previous life still busy and its dispatcher already past its loop (so that the restart does not need
	// the pool mutex for the shutdown to go on), then with an immediate restart
	for _, busy := range []bool{true, false} {
		p := New("p", WithWorkerCount(2)).Start()
		hold := make(chan struct{})
		if busy {
			running := make(chan struct{})
			p.Submit(func() { close(running); <-hold })
			<-running
		} else {
			p.Submit(func() {})
		}
		p.Shutdown()
		if busy {
			time.Sleep(200 * time.Millisecond)
		}
		started := make(chan struct{})
		go func() { p.Start(); close(started) }()
		if busy {
			time.Sleep(200 * time.Millisecond)
			close(hold)
		}
		select {
		case <-started:
		case <-time.After(3 * time.Second):
			if busy {
				t.Fatalf("REPLAY-VIOLATION Shutdown(); Start() while a task of the previous life is still running (its dispatcher has left its loop): Start does not return within 3s of that task's end")
			}
			t.Fatalf("REPLAY-VIOLATION Shutdown(); Start() at once: Start does not return within 3s - it waits for the workers of the previous life while holding the pool mutex, and their dispatcher needs that mutex (IsRunning) to close the dispatch channel")
		}
		ran := make(chan struct{})
		func() {
			defer func() {
				if r := recover(); r != nil {
					t.Fatalf("REPLAY-VIOLATION restart while a task of the previous life is still running (%v): Submit on the restarted pool panics: %v", busy, r)
				}
			}()
			p.Submit(func() { close(ran) })
		}()
		select {
		case <-ran:
		case <-time.After(3 * time.Second):
			t.Fatalf("REPLAY-VIOLATION restart while a task of the previous life is still running (%v): a task accepted by the restarted pool is not run within 3s", busy)
		}
		p.Shutdown()
		p.ShutdownComplete.Wait()
	}
}
`
		return "runtime", "workerpool", src, true
	}
	src := `package workerpool

import (
	"sync"
	"sync/atomic"
	"testing"
	"time"

	"github.com/iotaledger/hive.go/runtime/options"
)

// oracle: (1) group aggregation - a group's PendingChildrenCounter is the number of its direct children (pools
// and sub-groups) with pending work; (2) every accepted task runs exactly once and Shutdown followed by waiting for
// ShutdownComplete terminates, with submitters racing against Shutdown (bounded stress, interleaving not forced).
var _ sync.Mutex
var _ atomic.Bool

func TestVerifReplay(t *testing.T) {
	// (1)
	root := NewGroup("root")
	sub := root.CreateGroup("sub")
	subsub := sub.CreateGroup("subsub")
	pool := subsub.CreatePool("p", WithWorkerCount(1))
	release := make(chan struct{})
	started := make(chan struct{})
	pool.Submit(func() { close(started); <-release })
	<-started
	if r, s, ss := root.PendingChildrenCounter.Get(), sub.PendingChildrenCounter.Get(), subsub.PendingChildrenCounter.Get(); r != 1 || s != 1 || ss != 1 {
		t.Fatalf("REPLAY-VIOLATION with one busy pool three levels down the pending-children counters are root=%d sub=%d subsub=%d, want 1 1 1", r, s, ss)
	}
	close(release)
	pool.PendingTasksCounter.WaitIsZero()
	if r, s, ss := root.PendingChildrenCounter.Get(), sub.PendingChildrenCounter.Get(), subsub.PendingChildrenCounter.Get(); r != 0 || s != 0 || ss != 0 {
		t.Fatalf("REPLAY-VIOLATION after the pool went idle the pending-children counters are root=%d sub=%d subsub=%d, want 0 0 0", r, s, ss)
	}
	root.Shutdown()
	// (3) shutdown with a backlog: every queued task is run or cancelled, ShutdownComplete is reached - also with
	// cancel-on-shutdown; a pool that is started again after a completed shutdown runs the tasks it accepts
	for _, cancelPending := range []bool{false, true} {
		w := New("p", WithWorkerCount(1), WithCancelPendingTasksOnShutdown(cancelPending)).Start()
		hold := make(chan struct{})
		busy := make(chan struct{})
		w.Submit(func() { close(busy); <-hold })
		<-busy
		for i := 0; i < 8; i++ {
			w.Submit(func() {})
		}
		w.Shutdown()
		close(hold)
		done := make(chan struct{})
		go func() { w.ShutdownComplete.Wait(); close(done) }()
		select {
		case <-done:
		case <-time.After(3 * time.Second):
			t.Fatalf("REPLAY-VIOLATION Shutdown with 8 queued tasks (cancel pending: %v): ShutdownComplete not reached within 3s (pending %d, queue size %d)", cancelPending, w.PendingTasksCounter.Get(), w.Queue.Size())
		}
		if w.PendingTasksCounter.Get() != 0 {
			t.Fatalf("REPLAY-VIOLATION after a completed shutdown the pending counter is %d", w.PendingTasksCounter.Get())
		}
		w.Start()
		ranAgain := make(chan struct{})
		w.Submit(func() { close(ranAgain) })
		select {
		case <-ranAgain:
		case <-time.After(3 * time.Second):
			t.Fatalf("REPLAY-VIOLATION a pool that was started again after a completed shutdown did not run the task it accepted (pending %d)", w.PendingTasksCounter.Get())
		}
		w.Shutdown()
		w.ShutdownComplete.Wait()
	}
	// (4) pools of a group: cancel-on-shutdown is the default, an explicit option of the caller wins over it
	for _, explicit := range []int{-1, 0, 1} { // none, false, true
		g := NewGroup("g")
		opts := []options.Option[WorkerPool]{WithWorkerCount(1)}
		if explicit >= 0 {
			opts = append(opts, WithCancelPendingTasksOnShutdown(explicit == 1))
		}
		gp := g.CreatePool("p", opts...)
		hold := make(chan struct{})
		busy := make(chan struct{})
		gp.Submit(func() { close(busy); <-hold })
		<-busy
		var ranBacklog atomic.Int64
		for i := 0; i < 5; i++ {
			gp.Submit(func() { ranBacklog.Add(1) })
		}
		time.Sleep(50 * time.Millisecond) // the dispatcher has handed the first backlog tasks to the dispatch channel
		gp.Shutdown()
		close(hold)
		gp.ShutdownComplete.Wait()
		if explicit == 0 && ranBacklog.Load() != 5 {
			t.Fatalf("REPLAY-VIOLATION a group pool created with WithCancelPendingTasksOnShutdown(false) ran %d of its 5 queued tasks at shutdown (the caller's option was overridden by the group's default)", ranBacklog.Load())
		}
		if explicit != 0 && ranBacklog.Load() == 5 {
			t.Fatalf("REPLAY-VIOLATION a group pool that cancels pending tasks on shutdown (explicit option: %d) ran all 5 queued tasks behind a blocked worker", explicit)
		}
	}
RACE_SCENARIO
}
`
	// the Submit / Shutdown race is the recorded known finding: it fails on the unchanged tree, so it is only replayed
	// for the obligation it belongs to
	race := ""
	if strings.Contains(o.Name, "WorkerPool.Submit::") {
		race = raceC16
	}
	src = strings.Replace(src, "RACE_SCENARIO", race, 1)
	return "runtime", "workerpool", src, true
}

const raceC16 = `	// (2)
	for iter := 0; iter < 400; iter++ {
		w := New("p", WithWorkerCount(2)).Start()
		var stop atomic.Bool
		var accepted, ran atomic.Int64
		var wg sync.WaitGroup
		for g := 0; g < 4; g++ {
			wg.Add(1)
			go func() {
				defer wg.Done()
				for !stop.Load() {
					before := w.PendingTasksCounter.Get()
					_ = before
					w.Submit(func() { ran.Add(1) })
					accepted.Add(1)
				}
			}()
		}
		time.Sleep(time.Duration(iter%7) * 20 * time.Microsecond)
		w.Shutdown()
		done := make(chan struct{})
		go func() { w.ShutdownComplete.Wait(); close(done) }()
		select {
		case <-done:
		case <-time.After(2 * time.Second):
			stop.Store(true)
			t.Fatalf("REPLAY-VIOLATION submitters racing with Shutdown (iteration %d): waiting for ShutdownComplete did not return within 2s; pending counter %d, queue size %d (a counted task was pushed after the dispatcher had left its loop)", iter, w.PendingTasksCounter.Get(), w.Queue.Size())
		}
		stop.Store(true)
		wg.Wait()
	}`

// ---------- C18 (timed task executor) ----------
func init() { replayGens["c18"] = replayC18 }

func replayC18(o *Obligation) (string, string, string, bool) {
	if !strings.HasPrefix(o.Name, "timed.") {
		return "", "", "", false
	}
	src := `package timed

import (
	"sync/atomic"
	"testing"
	"time"
)

// oracle: per identifier at most one task is pending, scheduling an identifier again replaces its pending task,
// Cancel(id) returns true exactly when it prevented a pending task from running - also when the identifier is
// re-scheduled from inside its own callback or while its previous callback is still running.
func TestVerifReplay(t *testing.T) {
	fail := func(format string, a ...any) { t.Fatalf("REPLAY-VIOLATION "+format, a...) }
	// removal handles stay valid across a shutdown: cancelling an element (queued, or dropped by a cancelling shutdown)
	// afterwards neither panics nor removes another element
	for _, flags := range []ShutdownFlag{0, CancelPendingElements} {
		func() {
			q := NewQueue[int]()
			var els []*QueueElement[int]
			for i := 0; i < 5; i++ {
				els = append(els, q.Add(i, time.Now().Add(time.Duration(5-i)*time.Hour)))
			}
			q.Shutdown(flags)
			want := q.Size()
			defer func() {
				if r := recover(); r != nil {
					fail("Queue: Cancel of an element after Shutdown(%d) panics: %v", flags, r)
				}
			}()
			for _, el := range els {
				el.Cancel()
				if flags == 0 {
					want--
				}
				if q.Size() != want {
					fail("Queue: after Shutdown(%d), cancelling one element leaves %d queued elements, expected %d", flags, q.Size(), want)
				}
			}
		}()
	}
	// Queue.Poll: an element that a poller is waiting for when the queue is shut down without flags is still delivered,
	// at its time; with the cancel flag the poller returns empty-handed; a cancelled element is skipped
	for _, mode := range []string{"plain", "cancel", "ignore", "element-cancelled"} {
		q := NewQueue[int]()
		due := time.Now().Add(300 * time.Millisecond)
		el := q.Add(42, due)
		if mode == "element-cancelled" {
			q.Add(43, due.Add(50*time.Millisecond))
		}
		type res struct {
			v  int
			at time.Time
		}
		out := make(chan res, 1)
		go func() { v := q.Poll(true); out <- res{v, time.Now()} }()
		time.Sleep(80 * time.Millisecond) // the poller has popped the element and waits for its time
		switch mode {
		case "plain":
			q.Shutdown()
		case "cancel":
			q.Shutdown(CancelPendingElements)
		case "ignore":
			q.Shutdown(IgnorePendingTimeouts)
		case "element-cancelled":
			el.Cancel()
		}
		select {
		case r := <-out:
			switch mode {
			case "plain":
				if r.v != 42 || r.at.Before(due) {
					fail("Poll after a plain Shutdown returned %d, %v before the element was due", r.v, due.Sub(r.at))
				}
			case "cancel":
				if r.v != 0 {
					fail("Poll after Shutdown(CancelPendingElements) returned %d", r.v)
				}
			case "ignore":
				if r.v != 42 {
					fail("Poll after Shutdown(IgnorePendingTimeouts) returned %d", r.v)
				}
			case "element-cancelled":
				if r.v != 43 {
					fail("Poll returned %d after the element it waited for was cancelled (the next element is 43)", r.v)
				}
			}
		case <-time.After(3 * time.Second):
			fail("Poll does not return (%s): the element it popped was due after 300ms", mode)
		}
		if mode == "element-cancelled" {
			q.Shutdown(CancelPendingElements)
		}
	}
	// replace: only the last scheduling of an identifier runs
	{
		te := NewTaskExecutor[string](2)
		var ran [3]atomic.Int32
		for i := 0; i < 3; i++ {
			i := i
			te.ExecuteAfter("id", func() { ran[i].Add(1) }, 30*time.Millisecond)
		}
		time.Sleep(120 * time.Millisecond)
		if ran[0].Load() != 0 || ran[1].Load() != 0 || ran[2].Load() != 1 {
			fail("three schedulings of one identifier ran %d/%d/%d times, want 0/0/1", ran[0].Load(), ran[1].Load(), ran[2].Load())
		}
		if te.Cancel("id") {
			fail("Cancel(id) returned true although no task is pending (the only one has run)")
		}
		te.Shutdown()
	}
	// cancel of a pending task
	{
		te := NewTaskExecutor[string](1)
		var ran atomic.Int32
		te.ExecuteAfter("id", func() { ran.Add(1) }, 50*time.Millisecond)
		if !te.Cancel("id") {
			fail("Cancel(id) returned false for a pending task")
		}
		time.Sleep(100 * time.Millisecond)
		if ran.Load() != 0 {
			fail("a cancelled task ran")
		}
		te.Shutdown()
	}
	// re-scheduling from inside the callback
	{
		te := NewTaskExecutor[string](1)
		var ran2 atomic.Int32
		done1 := make(chan struct{})
		te.ExecuteAfter("id", func() {
			te.ExecuteAfter("id", func() { ran2.Add(1) }, 200*time.Millisecond)
			close(done1)
		}, time.Millisecond)
		<-done1
		time.Sleep(30 * time.Millisecond) // the wrapper of the first task has finished
		if !te.Cancel("id") {
			fail("the callback of task 'id' re-scheduled 'id'; after it returned Cancel(id) = false although the re-scheduled task is pending")
		}
		time.Sleep(300 * time.Millisecond)
		if ran2.Load() != 0 {
			fail("the re-scheduled task ran although Cancel was called")
		}
		te.Shutdown()
	}
	// re-scheduling while the previous callback is still running: the new task stays tracked
	{
		te := NewTaskExecutor[string](2)
		release := make(chan struct{})
		started := make(chan struct{})
		var ran2 atomic.Int32
		te.ExecuteAfter("id", func() { close(started); <-release }, time.Millisecond)
		<-started
		te.ExecuteAfter("id", func() { ran2.Add(1) }, 200*time.Millisecond)
		close(release)
		time.Sleep(30 * time.Millisecond)
		if !te.Cancel("id") {
			fail("'id' was re-scheduled while its previous callback was running; after that callback returned Cancel(id) = false although the new task is pending")
		}
		time.Sleep(300 * time.Millisecond)
		if ran2.Load() != 0 {
			fail("the re-scheduled task ran although Cancel was called")
		}
		te.Shutdown()
	}
}
`
	return "runtime", "timed", src, true
}

// ---------- C09 (authenticated map) ----------
func init() { replayGens["c09"] = replayC09 }

func replayC09(o *Obligation) (string, string, string, bool) {
	if !strings.HasPrefix(o.Name, "ads.") {
		return "", "", "", false
	}
	src := `package ads

import (
	"fmt"
	"testing"

	"github.com/iotaledger/hive.go/kvstore/mapdb"
)

// oracle: a plain Go map. All histories of up to 4 operations over 3 keys and 3 values (one of them empty):
// Get/Has/Size agree with the model, Delete reports presence, equal contents reached through different histories
// give equal roots and different contents different roots, and after Commit a re-opened instance agrees.
type id32 [32]byte

func TestVerifReplay(t *testing.T) {
	idToB := func(i id32) ([]byte, error) { return i[:], nil }
	bToID := func(b []byte) (id32, int, error) { var i id32; copy(i[:], b); return i, 32, nil }
	kToB := func(k string) ([]byte, error) { return []byte(k), nil }
	bToK := func(b []byte) (string, int, error) { return string(b), len(b), nil }
	vToB := func(v string) ([]byte, error) { return append([]byte{}, v...), nil }
	bToV := func(b []byte) (string, int, error) { return string(b), len(b), nil }
	keys := []string{"a", "b", "ab"}
	vals := []string{"x", "", "yy"}
	type op struct{ kind, k, v int } // 0 set 1 delete 2 commit+reopen
	var ops []op
	for k := range keys {
		for v := range vals {
			ops = append(ops, op{0, k, v})
		}
		ops = append(ops, op{1, k, 0})
	}
	ops = append(ops, op{2, 0, 0})
	roots := map[string]id32{}   // contents -> root
	byRoot := map[id32]string{} // root -> contents
	var run func(seq []op)
	check := func(seq []op) {
		store := mapdb.NewMapDB()
		m := NewMap[id32](store, idToB, bToID, kToB, bToK, vToB, bToV)
		model := map[string]string{}
		desc := ""
		for _, o := range seq {
			switch o.kind {
			case 0:
				desc += fmt.Sprintf("Set(%q,%q) ", keys[o.k], vals[o.v])
				if err := m.Set(keys[o.k], vals[o.v]); err != nil {
					t.Fatalf("REPLAY-VIOLATION %s: %v", desc, err)
				}
				model[keys[o.k]] = vals[o.v]
			case 1:
				desc += fmt.Sprintf("Delete(%q) ", keys[o.k])
				_, was := model[keys[o.k]]
				deleted, err := m.Delete(keys[o.k])
				if err != nil || deleted != was {
					t.Fatalf("REPLAY-VIOLATION %s: Delete reported %v (err %v), the key was present: %v", desc, deleted, err, was)
				}
				delete(model, keys[o.k])
			case 2:
				desc += "Commit+reopen "
				rootBefore := m.Root()
				if err := m.Commit(); err != nil {
					t.Fatalf("REPLAY-VIOLATION %s: %v", desc, err)
				}
				m = NewMap[id32](store, idToB, bToID, kToB, bToK, vToB, bToV)
				if !m.WasRestoredFromStorage() {
					t.Fatalf("REPLAY-VIOLATION %s: WasRestoredFromStorage is false after a Commit", desc)
				}
				if m.Root() != rootBefore {
					t.Fatalf("REPLAY-VIOLATION %s: the re-opened instance has another root than the committed one", desc)
				}
			}
			for _, k := range keys {
				want, present := model[k]
				got, exists, err := m.Get(k)
				has, herr := m.Has(k)
				if err != nil || herr != nil || exists != present || has != present || (present && got != want) {
					t.Fatalf("REPLAY-VIOLATION %s: Get(%q) = (%q, %v, %v), Has = (%v, %v); the model has (%q, %v)", desc, k, got, exists, err, has, herr, want, present)
				}
			}
			if m.Size() != len(model) {
				t.Fatalf("REPLAY-VIOLATION %s: Size() = %d, the model holds %d keys", desc, m.Size(), len(model))
			}
			streamed := map[string]string{}
			if err := m.Stream(func(k string, v string) error {
				if _, dup := streamed[k]; dup {
					t.Fatalf("REPLAY-VIOLATION %s: Stream hands out key %q twice", desc, k)
				}
				streamed[k] = v
				return nil
			}); err != nil {
				t.Fatalf("REPLAY-VIOLATION %s: Stream fails: %v", desc, err)
			}
			if len(streamed) != len(model) {
				t.Fatalf("REPLAY-VIOLATION %s: Stream hands out %d pairs, the model holds %d", desc, len(streamed), len(model))
			}
			for k, want := range model {
				if got, ok := streamed[k]; !ok || got != want {
					t.Fatalf("REPLAY-VIOLATION %s: Stream hands out (%q, %q) [present %v], the model has (%q, %q)", desc, k, got, ok, k, want)
				}
			}
		}
		contents := fmt.Sprint(len(model))
		for _, k := range keys {
			if v, ok := model[k]; ok {
				contents += fmt.Sprintf("|%s=%q", k, v)
			}
		}
		root := m.Root()
		if r, seen := roots[contents]; seen && r != root {
			t.Fatalf("REPLAY-VIOLATION %s: contents %s reached through another history gave a different root", desc, contents)
		}
		if c, seen := byRoot[root]; seen && c != contents {
			t.Fatalf("REPLAY-VIOLATION %s: contents %s have the same root as the different contents %s", desc, contents, c)
		}
		roots[contents], byRoot[root] = root, contents
	}
	run = func(seq []op) {
		if len(seq) > 0 {
			check(seq)
		}
		if len(seq) == 4 {
			return
		}
		for _, o := range ops {
			run(append(append([]op{}, seq...), o))
		}
	}
	run(nil)
}
`
	return "ads", ".", src, true
}

// ---------- C08 (BatchedWriter) ----------
func init() { replayGens["c08"] = replayC08 }

func replayC08(o *Obligation) (string, string, string, bool) {
	if !strings.HasPrefix(o.Name, "kvstore.Batch") && !strings.HasPrefix(o.Name, "kvstore.newBatchCollector") {
		return "", "", "", false
	}
	src := `package kvstore

import (
	"runtime"
	"sync"
	"sync/atomic"
	"testing"
	"time"
)

// oracle: every object whose Enqueue was accepted before StopBatchWriter was invoked has been marshalled, committed
// and notified (in this order, once per scheduling) when StopBatchWriter - any call of it - returns, the store
// holds the last state of each object, and no Enqueue stays blocked. Deterministic schedules (doubles block the
// writer where the schedule needs it); only Batched() of the KVStore interface is used by the BatchedWriter.
type rpStore struct {
	KVStore
	mu            sync.Mutex
	data          map[string]string
	commits       int
	commitEntered chan struct{}
	commitRelease chan struct{}
	enteredOnce   sync.Once
	failCommit    bool
}

func (s *rpStore) Batched() (BatchedMutations, error) { return &rpBatch{s: s, muts: map[string]string{}}, nil }

type rpBatch struct {
	s    *rpStore
	muts map[string]string
}

func (b *rpBatch) Set(key Key, value Value) error { b.muts[string(key)] = string(value); return nil }
func (b *rpBatch) Delete(key Key) error           { delete(b.muts, string(key)); return nil }
func (b *rpBatch) Cancel()                        {}
func (b *rpBatch) Commit() error {
	if b.s.commitEntered != nil {
		b.s.enteredOnce.Do(func() { close(b.s.commitEntered) })
		<-b.s.commitRelease
	}
	b.s.mu.Lock()
	defer b.s.mu.Unlock()
	b.s.commits++
	for k, v := range b.muts {
		b.s.data[k] = v
	}
	return nil
}
func (s *rpStore) get(k string) string { s.mu.Lock(); defer s.mu.Unlock(); return s.data[k] }
func (s *rpStore) ncommits() int       { s.mu.Lock(); defer s.mu.Unlock(); return s.commits }

type rpObj struct {
	key       string
	val       atomic.Value
	store     *rpStore
	scheduled atomic.Bool
	writes    atomic.Int32
	dones     atomic.Int32
	doneEarly atomic.Int32 // BatchWriteDone calls that came before the value was in the store
	lastWrote atomic.Value
	onWrite   func()
}

func (o *rpObj) BatchWrite(m BatchedMutations) {
	v := o.val.Load().(string)
	_ = m.Set(Key(o.key), Value(v))
	o.lastWrote.Store(v)
	o.writes.Add(1)
	if o.onWrite != nil {
		o.onWrite()
	}
}
func (o *rpObj) BatchWriteDone() {
	if o.store != nil && o.store.get(o.key) != o.lastWrote.Load().(string) {
		o.doneEarly.Add(1)
	}
	o.dones.Add(1)
}
func (o *rpObj) BatchWriteScheduled() bool  { return !o.scheduled.CompareAndSwap(false, true) }
func (o *rpObj) ResetBatchWriteScheduled() { o.scheduled.Store(false) }

func newObj(s *rpStore, k, v string) *rpObj { o := &rpObj{key: k, store: s}; o.val.Store(v); return o }

func waitUntil(cond func() bool, max time.Duration) bool {
	deadline := time.Now().Add(max)
	for time.Now().Before(deadline) {
		if cond() {
			return true
		}
		time.Sleep(time.Millisecond)
	}
	return cond()
}

func TestVerifReplay(t *testing.T) {
	fail := func(format string, a ...any) { t.Fatalf("REPLAY-VIOLATION "+format, a...) }
	stop := func(bw *BatchedWriter, what string) {
		stopped := make(chan struct{})
		go func() { bw.StopBatchWriter(); close(stopped) }()
		select {
		case <-stopped:
		case <-time.After(5 * time.Second):
			fail("%s: StopBatchWriter does not return (scheduledCount=%d: the writer waits for objects that were never queued, or has not been started)", what, bw.scheduledCount.Load())
		}
	}

	// (1) Stop right after the Enqueue that started the writer, before the new goroutine has been scheduled
	{
		prev := runtime.GOMAXPROCS(1)
		for i := 0; i < 20; i++ {
			s := &rpStore{data: map[string]string{}}
			bw := NewBatchedWriter(s, WithBatchTimeout(5*time.Millisecond))
			o := newObj(s, "k", "v")
			bw.Enqueue(o)
			bw.StopBatchWriter()
			if o.writes.Load() != 1 || o.dones.Load() != 1 || s.get("k") != "v" {
				runtime.GOMAXPROCS(prev)
				fail("Enqueue; StopBatchWriter (iteration %d): Stop returned with BatchWrite=%d BatchWriteDone=%d store=%q (the writer goroutine had not been counted in the WaitGroup yet)", i, o.writes.Load(), o.dones.Load(), s.get("k"))
			}
		}
		runtime.GOMAXPROCS(prev)
	}

	// (2) order: marshalled, committed, then notified - once; an empty batch commits nothing
	{
		s := &rpStore{data: map[string]string{}}
		bw := NewBatchedWriter(s, WithBatchSize(2), WithBatchTimeout(5*time.Millisecond))
		a, b, c := newObj(s, "a", "A"), newObj(s, "b", "B"), newObj(s, "c", "C")
		bw.Enqueue(a)
		bw.Enqueue(b)
		bw.Enqueue(c)
		bw.Enqueue(c) // already scheduled or already written: never two notifications for one scheduling
		stop(bw, "Enqueue(a); Enqueue(b); Enqueue(c); Enqueue(c)")
		for _, o := range []*rpObj{a, b, c} {
			if o.doneEarly.Load() != 0 {
				fail("BatchWriteDone of %s was called before its value was committed to the store", o.key)
			}
			if o.writes.Load() != o.dones.Load() || o.writes.Load() < 1 || s.get(o.key) != o.val.Load().(string) {
				fail("object %s: BatchWrite=%d BatchWriteDone=%d store=%q after StopBatchWriter", o.key, o.writes.Load(), o.dones.Load(), s.get(o.key))
			}
		}
	}

	// (3) an object that is modified and enqueued again while it is being marshalled is written again
	{
		s := &rpStore{data: map[string]string{}}
		bw := NewBatchedWriter(s, WithBatchSize(1), WithBatchTimeout(5*time.Millisecond))
		o := newObj(s, "k", "v1")
		var once sync.Once
		o.onWrite = func() {
			once.Do(func() {
				o.val.Store("v2")
				returned := make(chan struct{})
				go func() { bw.Enqueue(o); close(returned) }()
				select {
				case <-returned:
				case <-time.After(2 * time.Second):
				}
			})
		}
		bw.Enqueue(o)
		waitUntil(func() bool { return o.dones.Load() >= 2 }, 500*time.Millisecond)
		stop(bw, "object enqueued again during its BatchWrite")
		if s.get("k") != "v2" {
			fail("object modified and enqueued again during its BatchWrite: the store holds %q, not its last state \"v2\" (BatchWrite=%d): the second Enqueue was swallowed as already scheduled", s.get("k"), o.writes.Load())
		}
	}

	// (4) Stop while an accepted producer waits for a queue slot: its object is written, it does not stay blocked
	{
		s := &rpStore{data: map[string]string{}}
		bw := NewBatchedWriter(s, WithQueueSize(0), WithBatchSize(1), WithBatchTimeout(20*time.Millisecond))
		writerBusy, release := make(chan struct{}), make(chan struct{})
		a, b := newObj(s, "a", "A"), newObj(s, "b", "B")
		a.onWrite = func() { close(writerBusy); <-release }
		bw.Enqueue(a)
		<-writerBusy
		bReturned := make(chan struct{})
		go func() { bw.Enqueue(b); close(bReturned) }()
		waitUntil(func() bool { return b.scheduled.Load() }, 2*time.Second)
		waitUntil(func() bool { return bw.scheduledCount.Load() == 1 }, 300*time.Millisecond)
		stopped := make(chan struct{})
		go func() { bw.StopBatchWriter(); close(stopped) }()
		waitUntil(func() bool { return !bw.running.Load() }, 2*time.Second)
		close(release)
		select {
		case <-stopped:
		case <-time.After(5 * time.Second):
			fail("StopBatchWriter blocked")
		}
		if s.get("b") != "B" || b.writes.Load() != 1 || b.dones.Load() != 1 {
			fail("object accepted by Enqueue before Stop (producer waiting for a queue slot) was lost: store=%q BatchWrite=%d BatchWriteDone=%d", s.get("b"), b.writes.Load(), b.dones.Load())
		}
		select {
		case <-bReturned:
		case <-time.After(2 * time.Second):
			fail("Enqueue is still blocked after StopBatchWriter returned")
		}
	}

	// (6) StopBatchWriter runs while a producer is between its checks and the queue send (yield point of the verif
	// build): the producer must not block forever, its object is written completely or not touched at all
	{
		s := &rpStore{data: map[string]string{}}
		bw := NewBatchedWriter(s, WithQueueSize(0), WithBatchSize(1), WithBatchTimeout(5*time.Millisecond))
		bw.Enqueue(newObj(s, "first", "x")) // starts the writer
		inWindow, release := make(chan struct{}), make(chan struct{})
		var once sync.Once
		VerifEnqueueYield = func() { once.Do(func() { close(inWindow); <-release }) }
		o := newObj(s, "k", "v")
		returned := make(chan struct{})
		go func() { bw.Enqueue(o); close(returned) }()
		<-inWindow
		stopped := make(chan struct{})
		go func() { bw.StopBatchWriter(); close(stopped) }()
		select {
		case <-stopped: // Stop did not have to wait: then the object must not be touched afterwards
		case <-time.After(300 * time.Millisecond): // Stop waits for the accepted object
		}
		close(release)
		select {
		case <-returned:
		case <-time.After(2 * time.Second):
			VerifEnqueueYield = nil
			fail("StopBatchWriter ran while a producer was between the running check and the queue send (queue size 0): the producer's Enqueue is blocked forever (BatchWrite=%d BatchWriteDone=%d), the writer has left", o.writes.Load(), o.dones.Load())
		}
		VerifEnqueueYield = nil
		select {
		case <-stopped:
		case <-time.After(5 * time.Second):
			fail("StopBatchWriter blocked")
		}
		if w, d := o.writes.Load(), o.dones.Load(); !(w == 1 && d == 1 && s.get("k") == "v") && !(w == 0 && d == 0 && s.get("k") == "") {
			fail("Enqueue racing with StopBatchWriter: object neither written completely nor untouched: BatchWrite=%d BatchWriteDone=%d store=%q", w, d, s.get("k"))
		}
	}

	// (5) two concurrent Stop calls while a commit is in flight: both return only after it
	{
		s := &rpStore{data: map[string]string{}, commitEntered: make(chan struct{}), commitRelease: make(chan struct{})}
		bw := NewBatchedWriter(s, WithQueueSize(10), WithBatchSize(1), WithBatchTimeout(20*time.Millisecond))
		a := newObj(nil, "a", "A")
		bw.Enqueue(a)
		<-s.commitEntered
		first := make(chan struct{})
		go func() { bw.StopBatchWriter(); close(first) }()
		waitUntil(func() bool { return !bw.running.Load() }, 2*time.Second)
		go func() { time.Sleep(150 * time.Millisecond); close(s.commitRelease) }()
		second := make(chan struct{})
		go func() { bw.StopBatchWriter(); close(second) }()
		select {
		case <-second:
		case <-time.After(5 * time.Second):
			fail("second StopBatchWriter blocked")
		}
		if s.get("a") != "A" || a.dones.Load() != 1 {
			fail("a second, concurrent StopBatchWriter returned before the enqueued object was persisted: store=%q BatchWriteDone=%d", s.get("a"), a.dones.Load())
		}
		<-first
	}
}
`
	return "kvstore", ".", src, true
}

// ---------- C13 (reactive subscribers) ----------
func init() { replayGens["c13"] = replayC13 }

func replayC13(o *Obligation) (string, string, string, bool) {
	if !strings.HasPrefix(o.Name, "reactive.") {
		return "", "", "", false
	}
	src := `package reactive

import (
	"math/rand"
	"sync"
	"sync/atomic"
	"testing"
	"time"

	"github.com/iotaledger/hive.go/ds"
)

// oracle: a subscriber sees the state at subscription time and then every change exactly once and in order (each
// previous value is the preceding new value, the last one is the final value; folding reported set mutations strictly -
// added only when absent, deleted only when present - reproduces the contents), callbacks of one subscription never
// overlap and none starts after its unsubscribe call has returned.
func TestVerifReplay(t *testing.T) {
	fail := func(format string, a ...any) { t.Fatalf("REPLAY-VIOLATION "+format, a...) }

	// (0) every writer of a variable reports to the subscribers - Init, Set, Compute, DefaultTo, ToggleValue; an event
	// that is initialised as triggered runs its handlers
	{
		v := NewVariable[int]()
		last, calls := 0, 0
		v.OnUpdate(func(prev, cur int) {
			if prev != last {
				fail("variable subscriber: callback (%d -> %d) but the preceding new value was %d", prev, cur, last)
			}
			last = cur
			calls++
		})
		v.Init(5)
		v.Set(6)
		v.Compute(func(c int) int { return c + 1 })
		reset := v.ToggleValue(9)
		reset()
		v.DefaultTo(3)
		if last != v.Get() || calls != 6 {
			fail("variable after Init(5), Set(6), Compute(+1), ToggleValue(9), reset, DefaultTo(3): the subscriber was called %d times and last saw %d, the variable holds %d", calls, last, v.Get())
		}
		e := NewEvent()
		handled := false
		e.OnTrigger(func() { handled = true })
		e.Init(true)
		if !e.WasTriggered() || !handled {
			fail("event.Init(true): triggered = %v, handler called = %v", e.WasTriggered(), handled)
		}
	}

	// (1) Replace with elements that stay: a mirror that applies the reported mutations, and a derived set
	{
		s := NewSet[int]()
		s.AddAll(ds.NewSet(1, 2))
		mirror := ds.NewSet[int]()
		s.OnUpdate(func(m ds.SetMutations[int]) { mirror.Apply(m) })
		d := NewDerivedSet[int]()
		d.InheritFrom(s)
		s.Replace(ds.NewSet(2, 3))
		if !mirror.Has(2) || !mirror.Has(3) || mirror.Has(1) || mirror.Size() != 2 {
			fail("set {1,2}.Replace({2,3}): folding the reported mutations gives %v, the set holds %v", mirror.ToSlice(), s.ToSlice())
		}
		if !d.Has(2) || !d.Has(3) || d.Size() != 2 {
			fail("set {1,2}.Replace({2,3}): the DerivedSet inheriting from it holds %v, the set holds %v", d.ToSlice(), s.ToSlice())
		}
	}

	// (2) sequential histories of a set: strict fold of the reports == contents, for subscribers joining at any time
	{
		rng := rand.New(rand.NewSource(1))
		for round := 0; round < 200; round++ {
			s := NewSet[int]()
			type sub struct {
				mirror map[int]bool
				unsub  func()
				live   bool
			}
			var subs []*sub
			check := func(what string) {
				for i, sb := range subs {
					if !sb.live {
						continue
					}
					if len(sb.mirror) != s.Size() {
						fail("round %d after %s: subscriber %d folded %d elements, the set holds %v", round, what, i, len(sb.mirror), s.ToSlice())
					}
					for e := range sb.mirror {
						if !s.Has(e) {
							fail("round %d after %s: subscriber %d folded element %d which the set does not hold (%v)", round, what, i, e, s.ToSlice())
						}
					}
				}
			}
			for step := 0; step < 12; step++ {
				switch rng.Intn(6) {
				case 0:
					sb := &sub{mirror: map[int]bool{}, live: true}
					idx := len(subs)
					sb.unsub = s.OnUpdate(func(m ds.SetMutations[int]) {
						if !sb.live {
							fail("round %d: callback of subscriber %d ran after its unsubscribe returned", round, idx)
						}
						m.AddedElements().Range(func(e int) {
							if sb.mirror[e] {
								fail("round %d: element %d reported as added to subscriber %d which already has it", round, e, idx)
							}
							sb.mirror[e] = true
						})
						m.DeletedElements().Range(func(e int) {
							if !sb.mirror[e] {
								fail("round %d: element %d reported as deleted to subscriber %d which does not have it", round, e, idx)
							}
							delete(sb.mirror, e)
						})
					})
					subs = append(subs, sb)
					check("OnUpdate")
				case 1:
					s.Add(rng.Intn(5))
					check("Add")
				case 2:
					s.Delete(rng.Intn(5))
					check("Delete")
				case 3:
					s.Replace(ds.NewSet(rng.Intn(5), rng.Intn(5)))
					check("Replace")
				case 4:
					s.Apply(ds.NewSetMutations(rng.Intn(5)).WithDeletedElements(ds.NewSet(rng.Intn(5))))
					check("Apply")
				case 5:
					if len(subs) > 0 {
						sb := subs[rng.Intn(len(subs))]
						if sb.live {
							sb.unsub()
							sb.live = false
						}
					}
				}
			}
		}
	}

	// (3) variables under concurrency: per subscriber the (prev,new) chain is unbroken, callbacks do not overlap, none
	// starts after unsubscribe returned, the last reported value is the final value
	{
		for round := 0; round < 30; round++ {
			v := NewVariable[int]()
			var wg sync.WaitGroup
			var stopWriters atomic.Bool
			for w := 0; w < 3; w++ {
				wg.Add(1)
				go func(w int) {
					defer wg.Done()
					for i := 1; !stopWriters.Load(); i++ {
						v.Compute(func(cur int) int { return cur + 1 })
					}
				}(w)
			}
			type rec struct {
				last     int
				n        int
				running  atomic.Int32
				unsubbed atomic.Bool
				bad      atomic.Value
			}
			var recs []*rec
			var unsubs []func()
			for sIdx := 0; sIdx < 6; sIdx++ {
				r := &rec{}
				recs = append(recs, r)
				unsubs = append(unsubs, v.OnUpdate(func(prev, cur int) {
					if r.running.Add(1) != 1 {
						r.bad.Store("two callbacks of one subscription ran concurrently")
					}
					if r.unsubbed.Load() {
						r.bad.Store("a callback started after unsubscribe had returned")
					}
					if r.n == 0 && prev != 0 {
						r.bad.Store("the first report does not start from the zero value")
					}
					if r.n > 0 && prev != r.last {
						r.bad.Store("previous value of a report differs from the new value of the preceding report")
					}
					r.last, r.n = cur, r.n+1
					r.running.Add(-1)
				}, true))
				time.Sleep(200 * time.Microsecond)
			}
			for i := 0; i < 3; i++ {
				unsubs[i]()
				recs[i].unsubbed.Store(true)
			}
			time.Sleep(time.Millisecond)
			stopWriters.Store(true)
			wg.Wait()
			final := v.Get()
			for i, r := range recs {
				if b := r.bad.Load(); b != nil {
					fail("round %d subscriber %d: %s", round, i, b.(string))
				}
				if i >= 3 && r.last != final {
					fail("round %d subscriber %d: last reported value %d, final value %d", round, i, r.last, final)
				}
			}
		}
	}

	// (4) sets under concurrency: strict fold per subscriber equals the final contents
	{
		for round := 0; round < 30; round++ {
			s := NewSet[int]()
			var wg sync.WaitGroup
			var stopWriters atomic.Bool
			for w := 0; w < 3; w++ {
				wg.Add(1)
				go func(w int) {
					defer wg.Done()
					rng := rand.New(rand.NewSource(int64(round*10 + w)))
					for !stopWriters.Load() {
						switch rng.Intn(3) {
						case 0:
							s.Add(rng.Intn(6))
						case 1:
							s.Delete(rng.Intn(6))
						case 2:
							s.Replace(ds.NewSet(rng.Intn(6), rng.Intn(6)))
						}
					}
				}(w)
			}
			type rec struct {
				mirror map[int]bool
				bad    atomic.Value
			}
			var recs []*rec
			for sIdx := 0; sIdx < 4; sIdx++ {
				r := &rec{mirror: map[int]bool{}}
				recs = append(recs, r)
				s.OnUpdate(func(m ds.SetMutations[int]) {
					m.AddedElements().Range(func(e int) {
						if r.mirror[e] {
							r.bad.Store("an element was reported as added that the subscriber already has")
						}
						r.mirror[e] = true
					})
					m.DeletedElements().Range(func(e int) {
						if !r.mirror[e] {
							r.bad.Store("an element was reported as deleted that the subscriber does not have")
						}
						delete(r.mirror, e)
					})
				})
				time.Sleep(200 * time.Microsecond)
			}
			time.Sleep(time.Millisecond)
			stopWriters.Store(true)
			wg.Wait()
			for i, r := range recs {
				if b := r.bad.Load(); b != nil {
					fail("round %d set subscriber %d: %s", round, i, b.(string))
				}
				if len(r.mirror) != s.Size() {
					fail("round %d set subscriber %d: folded %d elements, the set holds %v", round, i, len(r.mirror), s.ToSlice())
				}
			}
		}
	}
}
`
	return "ds", "reactive", src, true
}

// ---------- C14 (derived reactive values) ----------
func init() { replayGens["c14"] = replayC14 }

var reC14SourceSide = regexp.MustCompile(`^reactive\.(set\.|readableSet\.OnUpdate|variable\.(Init|Set|Compute|updateValue)|readableVariable\.)`)

func replayC14(o *Obligation) (string, string, string, bool) {
	if !strings.HasPrefix(o.Name, "reactive.") || reC14SourceSide.MatchString(o.Name) {
		// (the subscription / writer side of variables and sets: the scenarios of c13)
		return "", "", "", false
	}
	if strings.Contains(o.Name, "cbarg.anytime") {
		return "ds", "reactive", replayC14Race, true
	}
	src := `package reactive

import (
	"math/rand"
	"sort"
	"sync"
	"sync/atomic"
	"testing"
	"time"

	"github.com/iotaledger/hive.go/ds"
)

type rpChain struct {
	id     int
	weight Variable[int]
}

// oracle: after every step of a random history the derived value equals its defining function of the inputs
func TestVerifReplay(t *testing.T) {
	fail := func(format string, a ...any) { t.Fatalf("REPLAY-VIOLATION "+format, a...) }
	within := func(d time.Duration, what string, f func()) {
		done := make(chan struct{})
		go func() { f(); close(done) }()
		select {
		case <-done:
		case <-time.After(d):
			fail("%s does not return", what)
		}
	}

	// (1) EvictionState: events of slots up to the evicted one are triggered, exactly those; the largest slot value
	{
		e := NewEvictionState[uint8]()
		ev255, ev7 := e.EvictionEvent(255), e.EvictionEvent(7)
		within(2*time.Second, "Evict(7) on an EvictionState[uint8]", func() { e.Evict(7) })
		if !ev7.WasTriggered() || ev255.WasTriggered() {
			fail("Evict(7): event of slot 7 triggered %v, event of slot 255 triggered %v", ev7.WasTriggered(), ev255.WasTriggered())
		}
		within(2*time.Second, "Evict(255) on an EvictionState[uint8] (the slot counter wraps around)", func() { e.Evict(255) })
		if !ev255.WasTriggered() || e.LastEvictedSlot() != 255 {
			fail("Evict(255): event triggered %v, last evicted slot %d", ev255.WasTriggered(), e.LastEvictedSlot())
		}
		rng := rand.New(rand.NewSource(3))
		for round := 0; round < 200; round++ {
			es := NewEvictionState[int]()
			events := map[int][]Event{}
			last := -1
			for step := 0; step < 10; step++ {
				slot := rng.Intn(12)
				if rng.Intn(2) == 0 {
					ev := es.EvictionEvent(slot)
					if (slot <= last) != ev.WasTriggered() {
						fail("EvictionEvent(%d) with last evicted slot %d: triggered = %v", slot, last, ev.WasTriggered())
					}
					events[slot] = append(events[slot], ev)
				} else {
					es.Evict(slot)
					if slot > last {
						last = slot
					}
					for s, evs := range events {
						for _, ev := range evs {
							if ev.WasTriggered() != (s <= last) {
								fail("after Evict(%d) (last evicted %d): event handed out for slot %d has triggered = %v", slot, last, s, ev.WasTriggered())
							}
						}
					}
				}
			}
		}
	}

	// (2) WaitGroup: triggered when and only when the last pending element is marked done
	{
		rng := rand.New(rand.NewSource(4))
		for round := 0; round < 300; round++ {
			w := NewWaitGroup[int]()
			pending := map[int]bool{}
			should := false
			desc := ""
			for step := 0; step < 8; step++ {
				k := rng.Intn(4)
				if rng.Intn(2) == 0 {
					w.Add(k)
					if !should {
						pending[k] = true
					} else {
						pending[k] = true
					}
					desc += "Add "
				} else {
					had := pending[k]
					w.Done(k)
					delete(pending, k)
					if had && len(pending) == 0 {
						should = true
					}
					desc += "Done "
				}
				if w.WasTriggered() != should {
					fail("WaitGroup history %s(last element %d): triggered = %v, but the last pending element was marked done: %v (pending now %d)", desc, k, w.WasTriggered(), should, len(pending))
				}
				if w.PendingElements().Size() != len(pending) {
					fail("WaitGroup history %s: %d pending elements, model has %d", desc, w.PendingElements().Size(), len(pending))
				}
			}
		}
	}

	// (3) Counter: number of monitored inputs that currently satisfy the condition
	{
		rng := rand.New(rand.NewSource(5))
		for round := 0; round < 200; round++ {
			c := NewCounter[int](func(v int) bool { return v%2 == 1 })
			var inputs []Variable[int]
			for step := 0; step < 12; step++ {
				if len(inputs) == 0 || rng.Intn(4) == 0 {
					v := NewVariable[int]().Init(rng.Intn(4))
					inputs = append(inputs, v)
					c.Monitor(v)
				} else {
					inputs[rng.Intn(len(inputs))].Set(rng.Intn(4))
				}
				want := 0
				for _, v := range inputs {
					if v.Get()%2 == 1 {
						want++
					}
				}
				if c.Get() != want {
					fail("Counter = %d, %d of its %d inputs satisfy the condition", c.Get(), want, len(inputs))
				}
			}
		}
	}

	// (4) DerivedSet: union of its current sources (overlapping sources, Replace, unsubscribing a source)
	{
		rng := rand.New(rand.NewSource(6))
		for round := 0; round < 200; round++ {
			a, b, c := NewSet[int](), NewSet[int](), NewSet[int]()
			d := NewDerivedSet[int]()
			unsubAB := d.InheritFrom(a, b)
			d.InheritFrom(c)
			srcs := []Set[int]{a, b, c}
			active := []bool{true, true, true}
			for step := 0; step < 12; step++ {
				s := srcs[rng.Intn(3)]
				switch rng.Intn(5) {
				case 0, 1:
					s.Add(rng.Intn(4))
				case 2:
					s.Delete(rng.Intn(4))
				case 3:
					s.Replace(ds.NewSet(rng.Intn(4), rng.Intn(4)))
				case 4:
					if active[0] && rng.Intn(3) == 0 {
						unsubAB()
						active[0], active[1] = false, false
					}
				}
				want := map[int]bool{}
				for i, src := range srcs {
					if active[i] {
						src.Range(func(e int) { want[e] = true })
					}
				}
				got := d.ToSlice()
				sort.Ints(got)
				if len(got) != len(want) {
					fail("DerivedSet holds %v, the union of its current sources is %v (a=%v b=%v c=%v, a/b subscribed: %v)", got, want, a.ToSlice(), b.ToSlice(), c.ToSlice(), active[0])
				}
				for _, e := range got {
					if !want[e] {
						fail("DerivedSet holds %v, the union of its current sources is %v", got, want)
					}
				}
			}
		}
	}

	// (5) SortedSet: ordered by current weight, heaviest / lightest at the ends (zero and negative weights, weight changes
	// of removed elements, re-adding)
	{
		rng := rand.New(rand.NewSource(7))
		for round := 0; round < 200; round++ {
			ss := NewSortedSet(func(c *rpChain) Variable[int] { return c.weight })
			var all []*rpChain
			for i := 0; i < 4; i++ {
				all = append(all, &rpChain{id: i, weight: NewVariable[int]().Init(rng.Intn(5) - 2)})
			}
			for step := 0; step < 12; step++ {
				c := all[rng.Intn(len(all))]
				switch rng.Intn(3) {
				case 0:
					ss.Add(c)
				case 1:
					ss.Delete(c)
				case 2:
					c.weight.Set(rng.Intn(5) - 2)
				}
				desc := ss.Descending()
				asc := ss.Ascending()
				if len(desc) != ss.Size() || len(asc) != len(desc) {
					fail("SortedSet lists %d elements, the set holds %d", len(desc), ss.Size())
				}
				for i := range desc {
					if asc[len(asc)-1-i] != desc[i] {
						fail("Ascending() is not the reverse of Descending()")
					}
					if i > 0 && desc[i-1].weight.Get() < desc[i].weight.Get() {
						fail("SortedSet.Descending() is not ordered by the current weights: position %d has weight %d, position %d has weight %d", i-1, desc[i-1].weight.Get(), i, desc[i].weight.Get())
					}
				}
				if len(desc) == 0 {
					if ss.HeaviestElement().Get() != nil || ss.LightestElement().Get() != nil {
						fail("empty SortedSet has a heaviest / lightest element")
					}
				} else if ss.HeaviestElement().Get() != desc[0] || ss.LightestElement().Get() != desc[len(desc)-1] {
					fail("SortedSet: HeaviestElement / LightestElement are not the ends of Descending() (%d elements, weights of the ends %d / %d)", len(desc), desc[0].weight.Get(), desc[len(desc)-1].weight.Get())
				}
			}
		}
	}

	// (6) DerivedVariable of two inputs under concurrent writers: equals compute(inputs) once the writers have returned
	{
		for round := 0; round < 50; round++ {
			x, y := NewVariable[int](), NewVariable[int]()
			d := NewDerivedVariable2(func(_ int, a, b int) int { return a*1000 + b }, x, y)
			var wg sync.WaitGroup
			for w := 0; w < 2; w++ {
				wg.Add(2)
				go func(w int) { defer wg.Done(); for i := 1; i <= 50; i++ { x.Set(w*100 + i) } }(w)
				go func(w int) { defer wg.Done(); for i := 1; i <= 50; i++ { y.Set(w*100 + i) } }(w)
			}
			wg.Wait()
			if d.Get() != x.Get()*1000+y.Get() {
				fail("DerivedVariable2 = %d after all writers returned, compute(inputs) = %d", d.Get(), x.Get()*1000+y.Get())
			}
		}
	}

	// (7) DerivedVariable of 2..4 inputs, forced interleaving: a writer of input k is held right after it has read input j
	// while a second writer changes input j (and gets 300ms to finish, which it can only do if the read happened outside
	// the derived variable's locked computation); once both have returned the value equals compute(inputs)
	for n := 2; n <= 4; n++ {
		for k := 0; k < n; k++ {
			for j := 0; j < n; j++ {
				if j == k {
					continue
				}
				in := make([]*rpPausing, n)
				for i := range in {
					in[i] = &rpPausing{Variable: NewVariable[int]()}
				}
				val := func() int {
					r := 0
					for i := range in {
						r = r*10 + in[i].Variable.Get()
					}
					return r
				}
				var d DerivedVariable[int]
				switch n {
				case 2:
					d = NewDerivedVariable2[int](func(_ int, a, b int) int { return a*10 + b }, in[0], in[1])
				case 3:
					d = NewDerivedVariable3[int](func(_ int, a, b, c int) int { return a*100 + b*10 + c }, in[0], in[1], in[2])
				case 4:
					d = NewDerivedVariable4[int](func(_ int, a, b, c, e int) int { return a*1000 + b*100 + c*10 + e }, in[0], in[1], in[2], in[3])
				}
				w2 := make(chan struct{})
				in[j].arm(func() {
					go func() { defer close(w2); in[j].Set(2) }()
					select {
					case <-w2:
					case <-time.After(300 * time.Millisecond):
					}
				})
				w1 := make(chan struct{})
				go func() { defer close(w1); in[k].Set(1) }()
				for _, c := range []chan struct{}{w1, w2} {
					select {
					case <-c:
					case <-time.After(10 * time.Second):
						fail("DerivedVariable%d: writers of inputs %d and %d do not return", n, k+1, j+1)
					}
				}
				if d.Get() != val() {
					fail("DerivedVariable%d = %d after a writer of input %d (which read input %d before a second writer changed it) and that second writer returned; compute(inputs) = %d", n, d.Get(), k+1, j+1, val())
				}
				d.Unsubscribe()
			}
		}
	}

	// (8) SubtractReactive, forced interleaving: element 1 is in the source and in the subtracted set. Writer B deletes it
	// from the subtracted set; right after the result's subscription has counted that deletion, writer A deletes it from
	// the source (and gets 300ms to return, which it can only do if the counting happens outside the result's Compute)
	{
		source := NewSet[int]()
		source.Add(1)
		source.Add(2)
		other := &rpPausingSet{Set: NewSet[int]()}
		other.Add(1)
		result := source.SubtractReactive(other)
		aDone := make(chan struct{})
		other.arm(func() {
			go func() { defer close(aDone); source.Delete(1) }()
			select {
			case <-aDone:
			case <-time.After(300 * time.Millisecond):
			}
		})
		bDone := make(chan struct{})
		go func() { defer close(bDone); other.Delete(1) }()
		for _, c := range []chan struct{}{bDone, aDone} {
			select {
			case <-c:
			case <-time.After(10 * time.Second):
				fail("SubtractReactive: writers of the source and of the subtracted set do not return")
			}
		}
		expected := ds.NewSet[int]()
		source.Range(func(e int) {
			if !other.Has(e) {
				expected.Add(e)
			}
		})
		if !result.Equals(expected) {
			fail("SubtractReactive after concurrent writers returned: result = %v, source = %v minus other = %v is %v", result.ToSlice(), source.ToSlice(), other.ToSlice(), expected.ToSlice())
		}
	}
}

// a subtracted set whose subscribers see mutations that run a hook after the deleted elements have been ranged over
type rpPausingSet struct {
	Set[int]
	armed atomic.Bool
	hook  func()
}

func (p *rpPausingSet) arm(hook func()) { p.hook = hook; p.armed.Store(true) }

func (p *rpPausingSet) OnUpdate(callback func(ds.SetMutations[int]), trig ...bool) func() {
	return p.Set.OnUpdate(func(m ds.SetMutations[int]) { callback(&rpPausingMutations{SetMutations: m, owner: p}) }, trig...)
}

type rpPausingMutations struct {
	ds.SetMutations[int]
	owner *rpPausingSet
}

func (p *rpPausingMutations) DeletedElements() ds.Set[int] {
	return &rpPausingElements{Set: p.SetMutations.DeletedElements(), owner: p.owner}
}

type rpPausingElements struct {
	ds.Set[int]
	owner *rpPausingSet
}

func (p *rpPausingElements) Range(callback func(int)) {
	p.Set.Range(callback)
	if !p.Set.IsEmpty() && p.owner.armed.CompareAndSwap(true, false) {
		p.owner.hook()
	}
}

// an input whose first Get after arm runs a hook between reading the value and returning it
type rpPausing struct {
	Variable[int]
	armed atomic.Bool
	hook  func()
}

func (p *rpPausing) arm(hook func()) { p.hook = hook; p.armed.Store(true) }

func (p *rpPausing) Get() int {
	v := p.Variable.Get()
	if p.armed.CompareAndSwap(true, false) {
		p.hook()
	}
	return v
}
`
	return "ds", "reactive", src, true
}

// the weight callback of a SortedSet record decides whether to take the set mutex by reading the record's unsubscribe
// handle without the mutex, while addSorted stores that handle under the mutex: run under the race detector
const replayC14Race = `package reactive

// govc:race

import (
	"sync/atomic"
	"testing"
	"time"
)

type rpRaceChain struct{ weight Variable[int] }

func TestVerifReplay(t *testing.T) {
	for round := 0; round < 10; round++ {
		ss := NewSortedSet(func(c *rpRaceChain) Variable[int] { return c.weight })
		c := &rpRaceChain{weight: NewVariable[int]().Init(1)}
		ss.Add(&rpRaceChain{weight: NewVariable[int]().Init(5)})
		var stop atomic.Bool
		doneA, doneB := make(chan struct{}), make(chan struct{})
		go func() {
			defer close(doneA)
			for i := 0; !stop.Load(); i++ {
				c.weight.Set(i%7 + 1)
			}
		}()
		go func() {
			defer close(doneB)
			for !stop.Load() {
				ss.Add(c)
				ss.Delete(c)
			}
		}()
		time.Sleep(100 * time.Millisecond)
		stop.Store(true)
		select {
		case <-doneA:
		case <-time.After(5 * time.Second):
			t.Fatalf("REPLAY-VIOLATION the weight writer is blocked (deadlock with Add/Delete of the SortedSet)")
		}
		select {
		case <-doneB:
		case <-time.After(5 * time.Second):
			t.Fatalf("REPLAY-VIOLATION Add/Delete of the SortedSet is blocked (deadlock with the weight writer)")
		}
	}
}
`

// JSON / map decoding of serix: well-formed JSON of the wrong shape must yield an error, never a panic
const replayC02JSON = `package serix_test

import (
	"context"
	"testing"
	"time"

	"github.com/iotaledger/hive.go/serializer/v2/serix"
)

type rpI64 struct{ V int64 ` + "`serix:\"\"`" + ` }
type rpU8 struct{ V uint8 ` + "`serix:\"\"`" + ` }
type rpI32 struct{ V int32 ` + "`serix:\"\"`" + ` }
type rpU64 struct{ V uint64 ` + "`serix:\"\"`" + ` }
type rpF struct{ V float64 ` + "`serix:\"\"`" + ` }
type rpB struct{ V bool ` + "`serix:\"\"`" + ` }
type rpS struct{ V string ` + "`serix:\",lenPrefix=uint8\"`" + ` }
type rpArr struct{ V [4]byte ` + "`serix:\"\"`" + ` }
type rpSl struct{ V []byte ` + "`serix:\",lenPrefix=uint8\"`" + ` }
type rpStrs struct{ V []string ` + "`serix:\",lenPrefix=uint8\"`" + ` }
type rpT struct{ V time.Time ` + "`serix:\"\"`" + ` }
type rpTyped struct{ V uint8 ` + "`serix:\"\"`" + ` }
type rpInner struct{ A uint8 ` + "`serix:\"\"`" + ` }
type rpArr16 struct{ V [2]uint16 ` + "`serix:\"\"`" + ` }
type rpMap struct{ V map[string]uint8 ` + "`serix:\",lenPrefix=uint8\"`" + ` }
type rpPtr struct{ V *rpInner ` + "`serix:\",optional\"`" + ` }
type rpNums struct{ V []uint64 ` + "`serix:\",lenPrefix=uint8\"`" + ` }
type rpNest struct{ V rpInner ` + "`serix:\"\"`" + ` }

func TestVerifReplay(t *testing.T) {
	api := serix.NewAPI()
	// every JSON value kind for the field "v"
	vals := []string{"5", "1.5", "\"x\"", "\"0x01020304\"", "\"0x0102030405\"", "\"0x0102\"", "\"0x\"", "true", "null", "[1,2]", "[\"a\"]", "{\"a\":1}", "{}"}
	targets := []func() any{
		func() any { return &rpI64{} }, func() any { return &rpU8{} }, func() any { return &rpI32{} }, func() any { return &rpU64{} },
		func() any { return &rpF{} }, func() any { return &rpB{} }, func() any { return &rpS{} }, func() any { return &rpArr{} },
		func() any { return &rpSl{} }, func() any { return &rpStrs{} }, func() any { return &rpT{} }, func() any { return &rpNest{} },
		// (non-byte arrays such as [2]uint16 are left out: map decoding them panics inside reflect for EVERY document, also a
		// valid one - sliceFromArray hands mapDecodeSlice an unaddressable copy; a missing feature outside these contracts,
		// see DESIGN.md 12.18)
		func() any { return &rpMap{} }, func() any { return &rpPtr{} }, func() any { return &rpNums{} },
	}
	// an object with a registered type code: the "type" key of the document may hold anything
	if err := api.RegisterTypeSettings(rpTyped{}, serix.TypeSettings{}.WithObjectType(uint8(7))); err != nil {
		t.Fatal(err)
	}
	for _, v := range vals {
		doc := "{\"type\": " + v + ", \"v\": 1}"
		func() {
			defer func() {
				if r := recover(); r != nil {
					t.Fatalf("REPLAY-VIOLATION JSONDecode(%s) into an object with a registered type code panicked: %v", doc, r)
				}
			}()
			_ = api.JSONDecode(context.Background(), []byte(doc), &rpTyped{})
		}()
	}
	for _, mk := range targets {
		for _, v := range vals {
			for _, validate := range []bool{false, true} {
				doc := "{\"v\": " + v + "}"
				obj := mk()
				func() {
					defer func() {
						if r := recover(); r != nil {
							t.Fatalf("REPLAY-VIOLATION JSONDecode(%s) into %T (validation %v) panicked: %v", doc, obj, validate, r)
						}
					}()
					if validate {
						_ = api.JSONDecode(context.Background(), []byte(doc), obj, serix.WithValidation())
					} else {
						_ = api.JSONDecode(context.Background(), []byte(doc), obj)
					}
				}()
			}
		}
	}
}
`

// ---------- C17 (syncutils) ----------
func init() { replayGens["c17"] = replayC17 }

func replayC17(o *Obligation) (string, string, string, bool) {
	if !strings.HasPrefix(o.Name, "syncutils.") {
		return "", "", "", false
	}
	if strings.HasPrefix(o.Name, "syncutils.Stack.SignalShutdown") {
		src := `package syncutils

import (
	"runtime"
	"sync/atomic"
	"testing"
	"time"
)

// oracle: no lost wake-up for the shutdown signal - a goroutine in PopOrWait whose wait condition has been turned false
// BEFORE SignalShutdown was called returns (bounded stress: the interleaving - the signal between the evaluation of the
// condition and the parking of the waiter - is not forced)
func TestVerifReplay(t *testing.T) {
	deadline := time.Now().Add(40 * time.Second)
	var cycles atomic.Int64
	stuck := make(chan int64, 64)
	for g := 0; g < 12; g++ {
		go func() {
			for time.Now().Before(deadline) {
				s := NewStack[int]()
				var running atomic.Bool
				running.Store(true)
				returned := make(chan struct{})
				go func() { s.PopOrWait(running.Load); close(returned) }()
				for i := 0; i < int(cycles.Load()%5); i++ {
					runtime.Gosched()
				}
				running.Store(false)
				s.SignalShutdown()
				select {
				case <-returned:
				case <-time.After(3 * time.Second):
					stuck <- cycles.Load()
					return
				}
				cycles.Add(1)
			}
		}()
	}
	select {
	case n := <-stuck:
		t.Fatalf("REPLAY-VIOLATION Stack: after about %d cycles a PopOrWait whose wait condition was turned false before SignalShutdown() does not return (the broadcast came between the waiter's look at the condition and its going to sleep: lost wake-up)", n)
	case <-time.After(41 * time.Second):
	}
}
`
		return "runtime", "syncutils", src, true
	}
	src := `package syncutils

import (
	"sync"
	"sync/atomic"
	"testing"
	"time"
)

// oracle: exclusion (a writer excludes everybody), no lost wake-up (a waiter whose condition became true returns),
// waits return only when their condition holds, misuse panics without corrupting the state.
func TestVerifReplay(t *testing.T) {
	fail := func(format string, a ...any) { t.Fatalf("REPLAY-VIOLATION "+format, a...) }
	returns := func(d time.Duration, f func()) bool {
		done := make(chan struct{})
		go func() { f(); close(done) }()
		select {
		case <-done:
			return true
		case <-time.After(d):
			return false
		}
	}

	// (1) StarvingMutex: exclusion under contention, every goroutine gets through
	{
		m := NewStarvingMutex()
		var writers, readers atomic.Int32
		var bad atomic.Value
		var wg sync.WaitGroup
		for g := 0; g < 6; g++ {
			wg.Add(1)
			go func(g int) {
				defer wg.Done()
				for i := 0; i < 300; i++ {
					if g%3 == 0 {
						m.Lock()
						if writers.Add(1) != 1 || readers.Load() != 0 {
							bad.Store("a writer was granted while another grant was outstanding")
						}
						writers.Add(-1)
						m.Unlock()
					} else {
						m.RLock()
						readers.Add(1)
						if writers.Load() != 0 {
							bad.Store("a reader was granted while a writer held the mutex")
						}
						readers.Add(-1)
						m.RUnlock()
					}
				}
			}(g)
		}
		if !returns(20*time.Second, wg.Wait) {
			fail("StarvingMutex: goroutines are blocked forever (lost wake-up)")
		}
		if b := bad.Load(); b != nil {
			fail("StarvingMutex: %s", b.(string))
		}
	}

	// (2) DAGMutex: releasing an entity that is not held panics and leaves the registry untouched; afterwards the entity
	// behaves like a fresh one
	{
		d := NewDAGMutex[int]()
		panicked := false
		func() {
			defer func() { panicked = recover() != nil }()
			d.RUnlock(7)
		}()
		if !panicked {
			fail("DAGMutex.RUnlock of an entity that is not held did not panic")
		}
		if !d.consumerCounter.IsEmpty() || !d.mutexes.IsEmpty() {
			fail("DAGMutex: the panicking RUnlock modified the registry (%d counters, %d mutexes)", d.consumerCounter.Size(), d.mutexes.Size())
		}
		d.RLock(7)
		d.RLock(7)
		d.RUnlock(7)
		granted := make(chan struct{})
		go func() { d.Lock(7); close(granted) }()
		select {
		case <-granted:
			fail("DAGMutex: a writer was granted entity 7 while a reader still holds it")
		case <-time.After(200 * time.Millisecond):
		}
		d.RUnlock(7)
		select {
		case <-granted:
		case <-time.After(3 * time.Second):
			fail("DAGMutex: the writer is still blocked 3s after the last reader released entity 7 (lost wake-up)")
		}
		d.Unlock(7)
		if !d.consumerCounter.IsEmpty() || !d.mutexes.IsEmpty() {
			fail("DAGMutex: entity 7 is still registered after its last consumer left")
		}
	}

	// (3) Counter: waiters with different thresholds are all woken by the change that satisfies them (Set and Update), and
	// only then
	{
		for _, useSet := range []bool{true, false} {
			c := NewCounter()
			c.Set(5)
			var below3, isZero atomic.Bool
			go func() { c.WaitIsBelow(3); below3.Store(true) }()
			go func() { c.WaitIsZero(); isZero.Store(true) }()
			time.Sleep(100 * time.Millisecond)
			if below3.Load() || isZero.Load() {
				fail("Counter: a Wait returned although its condition does not hold (value 5)")
			}
			if useSet {
				c.Set(0)
			} else {
				c.Update(-5)
			}
			deadline := time.Now().Add(3 * time.Second)
			for time.Now().Before(deadline) && !(below3.Load() && isZero.Load()) {
				time.Sleep(time.Millisecond)
			}
			if !below3.Load() || !isZero.Load() {
				fail("Counter (Set=%v): value went from 5 to 0 but WaitIsBelow(3) returned: %v, WaitIsZero returned: %v (lost wake-up)", useSet, below3.Load(), isZero.Load())
			}
			var above atomic.Bool
			go func() { c.WaitIsAbove(2); above.Store(true) }()
			time.Sleep(50 * time.Millisecond)
			if useSet {
				c.Set(3)
			} else {
				c.Update(3)
			}
			deadline = time.Now().Add(3 * time.Second)
			for time.Now().Before(deadline) && !above.Load() {
				time.Sleep(time.Millisecond)
			}
			if !above.Load() {
				fail("Counter (Set=%v): value went from 0 to 3 but WaitIsAbove(2) did not return (lost wake-up)", useSet)
			}
		}
	}

	// (4) Stack: WaitIsEmpty returns only when empty; one Push wakes every waiter whose size is reached
	{
		s := NewStack[int]()
		s.Push(1)
		s.Push(2)
		var empty atomic.Bool
		go func() { s.WaitIsEmpty(); empty.Store(true) }()
		time.Sleep(50 * time.Millisecond)
		s.Pop()
		time.Sleep(200 * time.Millisecond)
		if empty.Load() {
			fail("Stack.WaitIsEmpty returned while one element is still on the stack")
		}
		s.Pop()
		deadline := time.Now().Add(3 * time.Second)
		for time.Now().Before(deadline) && !empty.Load() {
			time.Sleep(time.Millisecond)
		}
		if !empty.Load() {
			fail("Stack.WaitIsEmpty did not return after the last element was popped (lost wake-up)")
		}
		var w1, w2 atomic.Bool
		go func() { s.WaitSizeIsAbove(0); w1.Store(true) }()
		go func() { s.WaitSizeIsAbove(0); w2.Store(true) }()
		time.Sleep(100 * time.Millisecond)
		s.Push(9)
		deadline = time.Now().Add(3 * time.Second)
		for time.Now().Before(deadline) && !(w1.Load() && w2.Load()) {
			time.Sleep(time.Millisecond)
		}
		if !w1.Load() || !w2.Load() {
			fail("Stack: one Push satisfied two waiters of WaitSizeIsAbove(0), but only %v / %v returned (a Signal wakes one sleeper only)", w1.Load(), w2.Load())
		}
	}

	// (5) Stack.PopOrWait: a wait condition that already says "stop" ends the call at once (nobody will wake it up later);
	// a condition that says "wait" is asked again after every wake-up
	{
		s := NewStack[int]()
		if !returns(2*time.Second, func() {
			if _, ok := s.PopOrWait(func() bool { return false }); ok {
				fail("Stack.PopOrWait on an empty stack with a false wait condition reported success")
			}
		}) {
			fail("Stack.PopOrWait on an empty stack whose wait condition is already false does not return (it went to sleep before asking)")
		}
		var stop atomic.Bool
		got := make(chan int, 1)
		go func() { v, ok := s.PopOrWait(func() bool { return !stop.Load() }); if ok { got <- v } else { got <- -1 } }()
		time.Sleep(50 * time.Millisecond)
		s.Push(7)
		select {
		case v := <-got:
			if v != 7 {
				fail("Stack.PopOrWait returned %d after Push(7)", v)
			}
		case <-time.After(3 * time.Second):
			fail("Stack.PopOrWait did not return after a Push (lost wake-up)")
		}
	}
}
`
	return "runtime", "syncutils", src, true
}

// serix round trips (C01): maps in the binary form are canonical (entries in byte-lexical order whatever the rules on
// the field) and round-trip; the JSON / map form of multi-entry maps with slice and map elements round-trips
const replaySerixRoundTrip = `package serix

import (
	"bytes"
	"context"
	"encoding/binary"
	"reflect"
	"sort"
	"testing"
)

type rpBoundedMap struct {
	Balances map[uint32]uint16 ` + "`" + `serix:",lenPrefix=uint16,minLen=1,maxLen=200"` + "`" + `
}

type rpPlainMap struct {
	Balances map[uint32]uint16 ` + "`" + `serix:",lenPrefix=uint16"` + "`" + `
}

type rpRanges struct {
	A uint8  ` + "`" + `serix:""` + "`" + `
	B uint16 ` + "`" + `serix:""` + "`" + `
	C uint32 ` + "`" + `serix:""` + "`" + `
	D int8   ` + "`" + `serix:""` + "`" + `
	E int32  ` + "`" + `serix:""` + "`" + `
}

type rpBoundedString struct {
	S string ` + "`" + `serix:",lenPrefix=uint8,minLen=2,maxLen=4"` + "`" + `
}

type rpDirectory struct {
	Names  map[string]string            ` + "`" + `serix:""` + "`" + `
	Tags   map[string][]string          ` + "`" + `serix:""` + "`" + `
	Quotas map[string]map[string]uint64 ` + "`" + `serix:""` + "`" + `
}

func rpCanonical(m map[uint32]uint16) []byte {
	entries := make([][]byte, 0, len(m))
	for k, v := range m {
		e := make([]byte, 6)
		binary.LittleEndian.PutUint32(e, k)
		binary.LittleEndian.PutUint16(e[4:], v)
		entries = append(entries, e)
	}
	sort.Slice(entries, func(i, j int) bool { return bytes.Compare(entries[i], entries[j]) < 0 })
	out := make([]byte, 2)
	binary.LittleEndian.PutUint16(out, uint16(len(m)))
	for _, e := range entries {
		out = append(out, e...)
	}
	return out
}

func TestVerifReplay(t *testing.T) {
	fail := func(format string, a ...any) { t.Fatalf("REPLAY-VIOLATION "+format, a...) }
	api := NewAPI()
	ctx := context.Background()
	newMap := func() map[uint32]uint16 {
		m := make(map[uint32]uint16)
		for i := 0; i < 64; i++ {
			m[uint32(i)*2654435761] = uint16(i % 7) // equal values under different keys
		}
		return m
	}
	for _, validation := range []bool{false, true} {
		var opts []Option
		if validation {
			opts = append(opts, WithValidation())
		}
		for round := 0; round < 16; round++ {
			plain := &rpPlainMap{Balances: newMap()}
			pb, err := api.Encode(ctx, plain, opts...)
			if err != nil || !bytes.Equal(pb, rpCanonical(plain.Balances)) {
				fail("Encode of a map field (validation %v): %v, entries in byte-lexical order: %v", validation, err, bytes.Equal(pb, rpCanonical(plain.Balances)))
			}
			bounded := &rpBoundedMap{Balances: newMap()}
			bb, err := api.Encode(ctx, bounded, opts...)
			if err != nil {
				fail("Encode of a map field with min/max length rules (validation %v): %v", validation, err)
			}
			if !bytes.Equal(bb, rpCanonical(bounded.Balances)) {
				fail("Encode of a map field with min/max length rules (validation %v, round %d): entries are not in byte-lexical order (the encoding depends on Go's map iteration order)", validation, round)
			}
			back := &rpBoundedMap{}
			n, err := api.Decode(ctx, bb, back, opts...)
			if err != nil || n != len(bb) || !reflect.DeepEqual(back, bounded) {
				fail("Decode(Encode(map with rules)) (validation %v): consumed %d of %d, err %v, equal %v", validation, n, len(bb), err, reflect.DeepEqual(back, bounded))
			}
		}
		// canonical bytes only (C03): whatever Decode accepts re-encodes to exactly the bytes consumed - in particular a
		// repeated key and (with validation) entries out of byte-lexical order are rejected
		entry := func(k uint32, v uint16) []byte {
			e := make([]byte, 6)
			binary.LittleEndian.PutUint32(e, k)
			binary.LittleEndian.PutUint16(e[4:], v)
			return e
		}
		for _, doc := range [][][]byte{
			{entry(1, 1), entry(1, 1)},
			{entry(1, 1), entry(1, 2)},
			{entry(1, 2), entry(1, 1)},
			{entry(2, 1), entry(1, 1)},
			{entry(1, 1), entry(2, 1), entry(1, 3)},
			{entry(1, 1), entry(2, 1)},
		} {
			b := []byte{byte(len(doc)), 0}
			for _, e := range doc {
				b = append(b, e...)
			}
			got := &rpPlainMap{}
			n, err := api.Decode(ctx, b, got, opts...)
			if err != nil {
				continue
			}
			if !validation {
				if len(got.Balances) != len(doc) {
					fail("Decode accepts % x (%d entries) and yields a map of %d entries: a repeated key overwrote an entry", b, len(doc), len(got.Balances))
				}
				continue
			}
			re, err := api.Encode(ctx, got, opts...)
			if err != nil || n != len(b) || !bytes.Equal(re, b[:n]) {
				fail("validated Decode accepts % x (consumed %d) but re-encoding the decoded value gives % x, %v", b, n, re, err)
			}
		}
		// integer kinds that travel as JSON numbers: the whole range round-trips
		for _, rg := range []rpRanges{{0, 0, 0, 0, 0}, {127, 32767, 1<<31 - 1, 127, 1<<31 - 1}, {128, 32768, 1 << 31, -128, -1 << 31}, {255, 65535, 1<<32 - 1, -1, -7}} {
			js, err := api.JSONEncode(ctx, &rg, opts...)
			if err != nil {
				fail("JSONEncode(%+v): %v", rg, err)
			}
			var back rpRanges
			if err := api.JSONDecode(ctx, js, &back, opts...); err != nil || back != rg {
				fail("JSONDecode(JSONEncode(%+v)) (validation %v) of %s: %+v, %v", rg, validation, js, back, err)
			}
		}
		// without validation, what Encode accepts Decode reads back - also a string outside its declared bounds
		if !validation {
			for _, str := range []string{"", "x", "toolong"} {
				bs := &rpBoundedString{S: str}
				bin, err := api.Encode(ctx, bs)
				if err != nil {
					fail("Encode without validation of a string outside its bounds: %v", err)
				}
				var back rpBoundedString
				if n, err := api.Decode(ctx, bin, &back); err != nil || n != len(bin) || back.S != str {
					fail("Decode(Encode(%q)) without validation (declared bounds 2..4): %q, consumed %d of %d, %v", str, back.S, n, len(bin), err)
				}
			}
		}
		src := &rpDirectory{
			Names:  map[string]string{"a": "alice", "b": "bob", "c": "carol"},
			Tags:   map[string][]string{"a": {"red"}, "b": {"green"}, "c": {"blue"}},
			Quotas: map[string]map[string]uint64{"a": {"disk": 1}, "b": {"cpu": 2}, "c": {"mem": 3}},
		}
		for round := 0; round < 8; round++ {
			js, err := api.JSONEncode(ctx, src, opts...)
			if err != nil {
				fail("JSONEncode: %v", err)
			}
			dst := new(rpDirectory)
			if err := api.JSONDecode(ctx, js, dst, opts...); err != nil {
				fail("JSONDecode(JSONEncode(x)) (validation %v) of %s: %v", validation, js, err)
			}
			if !reflect.DeepEqual(src, dst) {
				fail("JSONDecode(JSONEncode(x)) != x (validation %v): document %s decodes to Names %v Tags %v Quotas %v", validation, js, dst.Names, dst.Tags, dst.Quotas)
			}
		}
	}
}
` + ""

// ---------- C04 / C05 (mapdb, views, wrappers) ----------
func init() { replayGens["c04"] = replayC04; replayGens["c05"] = replayC05 }

// C04: differential test of a random view tree (plain, flush and debug wrappers mixed) against one ordered map keyed by
// realm||key
func replayC04(o *Obligation) (string, string, string, bool) {
	if !strings.HasPrefix(o.Name, "mapdb.") && !strings.HasPrefix(o.Name, "flushkv.") && !strings.HasPrefix(o.Name, "debug.") {
		return "", "", "", false
	}
	src := `package mapdb_test

import (
	"bytes"
	"errors"
	"math/rand"
	"sort"
	"testing"

	"github.com/iotaledger/hive.go/kvstore"
	"github.com/iotaledger/hive.go/kvstore/debug"
	"github.com/iotaledger/hive.go/kvstore/flushkv"
	"github.com/iotaledger/hive.go/kvstore/mapdb"
)

type rpView struct {
	st    kvstore.KVStore
	realm string
}

func TestVerifReplay(t *testing.T) {
	fail := func(format string, a ...any) { t.Fatalf("REPLAY-VIOLATION "+format, a...) }
	rng := rand.New(rand.NewSource(11))
	alphabet := []string{"", "a", "b", "ab", "aa", "ba"}
	for round := 0; round < 300; round++ {
		root := mapdb.NewMapDB()
		model := map[string][]byte{}
		views := []rpView{{root, ""}}
		wrap := func(s kvstore.KVStore) kvstore.KVStore {
			switch rng.Intn(3) {
			case 0:
				return flushkv.New(s)
			case 1:
				return debug.New(s, func(debug.Command, ...[]byte) {})
			}
			return s
		}
		// a small tree of views through wrappers
		for i := 0; i < 5; i++ {
			parent := views[rng.Intn(len(views))]
			r := alphabet[1+rng.Intn(len(alphabet)-1)]
			base := wrap(parent.st)
			if rng.Intn(2) == 0 {
				v, err := base.WithRealm([]byte(r))
				if err != nil {
					fail("WithRealm(%q): %v", r, err)
				}
				views = append(views, rpView{v, r})
			} else {
				v, err := base.WithExtendedRealm([]byte(r))
				if err != nil {
					fail("WithExtendedRealm(%q): %v", r, err)
				}
				views = append(views, rpView{v, parent.realm + r})
			}
		}
		for _, v := range views {
			if string(v.st.Realm()) != v.realm {
				fail("a view created for realm %q reports realm %q", v.realm, v.st.Realm())
			}
		}
		desc := ""
		inView := func(v rpView, prefix string) []string {
			var ks []string
			for k := range model {
				if len(k) >= len(v.realm)+len(prefix) && k[:len(v.realm)+len(prefix)] == v.realm+prefix {
					ks = append(ks, k[len(v.realm):])
				}
			}
			sort.Strings(ks)
			return ks
		}
		for step := 0; step < 25; step++ {
			v := views[rng.Intn(len(views))]
			key := alphabet[rng.Intn(len(alphabet))]
			full := v.realm + key
			switch rng.Intn(9) {
			case 0, 1:
				val := []byte(alphabet[rng.Intn(len(alphabet))])
				buf := append([]byte{}, val...)
				desc += "Set(" + v.realm + "|" + key + ") "
				if err := v.st.Set([]byte(key), buf); err != nil {
					fail("%s: %v", desc, err)
				}
				for i := range buf {
					buf[i] = 'X' // the caller's buffer is the caller's again
				}
				model[full] = val
			case 2:
				desc += "Delete(" + v.realm + "|" + key + ") "
				if err := v.st.Delete([]byte(key)); err != nil {
					fail("%s: %v", desc, err)
				}
				delete(model, full)
			case 3:
				desc += "DeletePrefix(" + v.realm + "|" + key + ") "
				if err := v.st.DeletePrefix([]byte(key)); err != nil {
					fail("%s: %v", desc, err)
				}
				for _, k := range inView(v, key) {
					delete(model, v.realm+k)
				}
			case 4:
				if rng.Intn(4) == 0 {
					desc += "Clear(" + v.realm + ") "
					if err := v.st.Clear(); err != nil {
						fail("%s: %v", desc, err)
					}
					for _, k := range inView(v, "") {
						delete(model, v.realm+k)
					}
				}
			case 5:
				// a batch: the last operation per key wins on Commit, nothing happens on Cancel
				b, err := v.st.Batched()
				if err != nil {
					fail("%s Batched: %v", desc, err)
				}
				pending := map[string][]byte{}
				for i := 0; i < 4; i++ {
					k := alphabet[rng.Intn(len(alphabet))]
					if rng.Intn(3) == 0 {
						_ = b.Delete([]byte(k))
						pending[k] = nil
					} else {
						val := []byte(alphabet[rng.Intn(len(alphabet))] + "v")
						_ = b.Set([]byte(k), val)
						pending[k] = val
					}
				}
				if rng.Intn(3) == 0 {
					desc += "Batch.Cancel "
					b.Cancel()
				} else {
					desc += "Batch.Commit "
					if err := b.Commit(); err != nil {
						fail("%s: %v", desc, err)
					}
					for k, val := range pending {
						if val == nil {
							delete(model, v.realm+k)
						} else {
							model[v.realm+k] = val
						}
					}
				}
			default:
			}
			// observe through every view
			for _, w := range views {
				for _, k := range alphabet {
					want, present := model[w.realm+k]
					got, err := w.st.Get([]byte(k))
					has, herr := w.st.Has([]byte(k))
					if herr != nil || has != present || (present && (err != nil || !bytes.Equal(got, want))) || (!present && !errors.Is(err, kvstore.ErrKeyNotFound)) {
						fail("%s: view %q Get(%q) = (%q, %v), Has = (%v, %v); the model has (%q, %v)", desc, w.realm, k, got, err, has, herr, want, present)
					}
					if present && len(got) > 0 {
						got[0] ^= 0xff // a returned value is a private copy
						again, _ := w.st.Get([]byte(k))
						if !bytes.Equal(again, want) {
							fail("%s: writing into the value returned by Get(%q) changed the stored value", desc, k)
						}
					}
				}
				prefix := alphabet[rng.Intn(len(alphabet))]
				want := inView(w, prefix)
				for _, dir := range []kvstore.IterDirection{kvstore.IterDirectionForward, kvstore.IterDirectionBackward} {
					exp := append([]string{}, want...)
					if dir == kvstore.IterDirectionBackward {
						sort.Sort(sort.Reverse(sort.StringSlice(exp)))
					}
					stopAfter := rng.Intn(len(exp) + 2)
					var keys, pairs []string
					if err := w.st.IterateKeys([]byte(prefix), func(k kvstore.Key) bool { keys = append(keys, string(k)); return len(keys) < stopAfter }, dir); err != nil {
						fail("%s IterateKeys: %v", desc, err)
					}
					if err := w.st.Iterate([]byte(prefix), func(k kvstore.Key, val kvstore.Value) bool {
						if !bytes.Equal(val, model[w.realm+string(k)]) {
							fail("%s: view %q Iterate hands out (%q, %q), the model has %q", desc, w.realm, k, val, model[w.realm+string(k)])
						}
						if len(val) > 0 {
							val[0] ^= 0xff // what the consumer gets is a private copy
							if again, _ := w.st.Get(k); !bytes.Equal(again, model[w.realm+string(k)]) {
								fail("%s: writing into the value Iterate handed out for %q changed the stored value", desc, k)
							}
						}
						pairs = append(pairs, string(k))
						return len(pairs) < stopAfter
					}, dir); err != nil {
						fail("%s Iterate: %v", desc, err)
					}
					n := stopAfter
					if n > len(exp) || n == 0 {
						if n == 0 && len(exp) > 0 {
							n = 1 // the consumer is asked at least once and stops there
						} else {
							n = len(exp)
						}
					}
					if len(keys) != n || len(pairs) != n {
						fail("%s: view %q prefix %q direction %d, consumer stops after %d: IterateKeys handed out %v, Iterate %v, the keys are %v", desc, w.realm, prefix, dir, stopAfter, keys, pairs, exp)
					}
					for i := 0; i < n; i++ {
						if keys[i] != exp[i] || pairs[i] != exp[i] {
							fail("%s: view %q prefix %q direction %d: IterateKeys %v, Iterate %v, expected %v", desc, w.realm, prefix, dir, keys, pairs, exp[:n])
						}
					}
				}
			}
		}
		// after Close everything fails with ErrStoreClosed, on every view
		pre, _ := views[len(views)-1].st.Batched()
		if err := root.Close(); err != nil {
			fail("Close: %v", err)
		}
		for _, w := range views {
			_, e1 := w.st.Get([]byte("a"))
			_, e2 := w.st.Has([]byte("a"))
			e3 := w.st.Set([]byte("a"), []byte("x"))
			e4 := w.st.Delete([]byte("a"))
			e5 := w.st.DeletePrefix([]byte("a"))
			e6 := w.st.Clear()
			e7 := w.st.Iterate(nil, func(kvstore.Key, kvstore.Value) bool { return true })
			e8 := w.st.IterateKeys(nil, func(kvstore.Key) bool { return true })
			e9 := w.st.Flush()
			_, e10 := w.st.Batched()
			_, e11 := w.st.WithRealm([]byte("z"))
			_, e12 := w.st.WithExtendedRealm([]byte("z"))
			for i, e := range []error{e1, e2, e3, e4, e5, e6, e7, e8, e9, e10, e11, e12} {
				if !errors.Is(e, kvstore.ErrStoreClosed) {
					fail("after Close, operation %d on view %q returned %v instead of ErrStoreClosed", i+1, w.realm, e)
				}
			}
		}
		if pre != nil {
			_ = pre.Set([]byte("late"), []byte("x"))
			if err := pre.Commit(); !errors.Is(err, kvstore.ErrStoreClosed) {
				fail("Commit of a batch created before Close returned %v after Close", err)
			}
		}
	}
}
`
	return "kvstore", "mapdb", src, true
}

// C05: concurrent callers on several views - no data race (go test -race), no deadlock (watchdog), reads see whole values
func replayC05(o *Obligation) (string, string, string, bool) {
	if !strings.HasPrefix(o.Name, "mapdb.") {
		return "", "", "", false
	}
	src := `package mapdb_test

// govc:race

import (
	"bytes"
	"sync"
	"testing"
	"time"

	"github.com/iotaledger/hive.go/kvstore"
	"github.com/iotaledger/hive.go/kvstore/mapdb"
)

func TestVerifReplay(t *testing.T) {
	root := mapdb.NewMapDB()
	va, _ := root.WithRealm([]byte("a"))
	vb, _ := root.WithExtendedRealm([]byte("a"))
	views := []kvstore.KVStore{root, va, vb}
	vals := [][]byte{bytes.Repeat([]byte{0xAA}, 4096), bytes.Repeat([]byte{0x55}, 4096)}
	var wg sync.WaitGroup
	stop := make(chan struct{})
	bad := make(chan string, 16)
	for w := 0; w < 6; w++ {
		wg.Add(1)
		go func(w int) {
			defer wg.Done()
			v := views[w%len(views)]
			for i := 0; ; i++ {
				select {
				case <-stop:
					return
				default:
				}
				switch (w + i) % 7 {
				case 0, 1:
					_ = v.Set([]byte{'k', byte(i % 3)}, vals[i%2])
				case 2:
					if got, err := v.Get([]byte{'k', byte(i % 3)}); err == nil && !bytes.Equal(got, vals[0]) && !bytes.Equal(got, vals[1]) {
						select {
						case bad <- "Get returned a value that no Set ever stored (a mix of two writes)":
						default:
						}
					}
				case 3:
					_, _ = v.Has([]byte{'k', byte(i % 3)})
				case 4:
					_ = v.IterateKeys(nil, func(kvstore.Key) bool { return true })
					_ = v.Iterate(nil, func(_ kvstore.Key, val kvstore.Value) bool { return len(val) == 4096 })
				case 5:
					b, err := v.Batched()
					if err == nil {
						_ = b.Set([]byte{'k', byte(i % 3)}, vals[i%2])
						_ = b.Delete([]byte{'k', byte((i + 1) % 3)})
						_ = b.Commit()
					}
				case 6:
					if i%50 == 0 {
						_ = v.DeletePrefix([]byte{'k'})
					} else {
						_ = v.Delete([]byte{'k', byte(i % 3)})
					}
				}
			}
		}(w)
	}
	time.Sleep(600 * time.Millisecond)
	close(stop)
	done := make(chan struct{})
	go func() { wg.Wait(); close(done) }()
	select {
	case <-done:
	case <-time.After(5 * time.Second):
		t.Fatalf("REPLAY-VIOLATION concurrent callers on three views of one store did not return (deadlock)")
	}
	select {
	case m := <-bad:
		t.Fatalf("REPLAY-VIOLATION %s", m)
	default:
	}
	// a second batch commit on a view after Close must return, too
	b1, _ := va.Batched()
	b2, _ := va.Batched()
	_ = root.Close()
	ret := make(chan struct{})
	go func() { _ = b1.Commit(); _ = b2.Commit(); _, _ = va.Get([]byte("x")); close(ret) }()
	select {
	case <-ret:
	case <-time.After(3 * time.Second):
		t.Fatalf("REPLAY-VIOLATION operations on a view of a closed store do not return (a lock is never released)")
	}
}
`
	return "kvstore", "mapdb", src, true
}
