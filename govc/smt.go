package main

import (
	"fmt"
	"go/types"
	"math/big"
	"strings"
)

// ---- SMT term helpers (terms are strings) ----

func q(name string) string {
	for _, c := range name {
		if !(c >= 'a' && c <= 'z' || c >= 'A' && c <= 'Z' || c >= '0' && c <= '9' || c == '_' || c == '.' || c == '$' || c == '!' || c == '@') {
			return "|" + strings.ReplaceAll(name, "|", "!") + "|"
		}
	}
	if name == "" || name[0] >= '0' && name[0] <= '9' {
		return "|" + name + "|"
	}
	return name
}

func app(f string, args ...string) string {
	if len(args) == 0 {
		return f
	}
	return "(" + f + " " + strings.Join(args, " ") + ")"
}

func and(xs ...string) string {
	var ys []string
	for _, x := range xs {
		if x == "true" || x == "" {
			continue
		}
		if x == "false" {
			return "false"
		}
		ys = append(ys, x)
	}
	switch len(ys) {
	case 0:
		return "true"
	case 1:
		return ys[0]
	}
	return app("and", ys...)
}

func or(xs ...string) string {
	var ys []string
	for _, x := range xs {
		if x == "false" || x == "" {
			continue
		}
		if x == "true" {
			return "true"
		}
		ys = append(ys, x)
	}
	switch len(ys) {
	case 0:
		return "false"
	case 1:
		return ys[0]
	}
	return app("or", ys...)
}

func not(x string) string {
	switch x {
	case "true":
		return "false"
	case "false":
		return "true"
	}
	if strings.HasPrefix(x, "(not ") && balanced(x[5:len(x)-1]) {
		return x[5 : len(x)-1]
	}
	return app("not", x)
}

func balanced(s string) bool {
	d := 0
	inq := false
	for _, c := range s {
		if c == '|' {
			inq = !inq
		}
		if inq {
			continue
		}
		if c == '(' {
			d++
		} else if c == ')' {
			d--
			if d < 0 {
				return false
			}
		}
	}
	return d == 0
}

func implies(a, b string) string {
	if a == "true" {
		return b
	}
	if b == "true" {
		return "true"
	}
	return app("=>", a, b)
}

func ite(c, a, b string) string {
	if c == "true" {
		return a
	}
	if c == "false" {
		return b
	}
	if a == b {
		return a
	}
	return app("ite", c, a, b)
}

func eq(a, b string) string { return app("=", a, b) }

func num(n *big.Int) string {
	if n.Sign() < 0 {
		return "(- " + new(big.Int).Neg(n).String() + ")"
	}
	return n.String()
}

func numI(n int64) string { return num(big.NewInt(n)) }

func pow2(k int) *big.Int { return new(big.Int).Lsh(big.NewInt(1), uint(k)) }

// integer type info
type intInfo struct {
	bits   int
	signed bool
}

func intInfoOf(t types.Type) (intInfo, bool) {
	b, ok := t.Underlying().(*types.Basic)
	if !ok {
		return intInfo{}, false
	}
	switch b.Kind() {
	case types.Int8:
		return intInfo{8, true}, true
	case types.Int16:
		return intInfo{16, true}, true
	case types.Int32:
		return intInfo{32, true}, true
	case types.Int64, types.Int:
		return intInfo{64, true}, true
	case types.Uint8:
		return intInfo{8, false}, true
	case types.Uint16:
		return intInfo{16, false}, true
	case types.Uint32:
		return intInfo{32, false}, true
	case types.Uint64, types.Uint, types.Uintptr:
		return intInfo{64, false}, true
	case types.UntypedInt, types.UntypedRune:
		return intInfo{64, true}, true
	}
	return intInfo{}, false
}

func (ii intInfo) min() *big.Int {
	if !ii.signed {
		return big.NewInt(0)
	}
	return new(big.Int).Neg(pow2(ii.bits - 1))
}
func (ii intInfo) max() *big.Int {
	if !ii.signed {
		return new(big.Int).Sub(pow2(ii.bits), big.NewInt(1))
	}
	return new(big.Int).Sub(pow2(ii.bits-1), big.NewInt(1))
}

func (ii intInfo) inRange(x string) string {
	return and(app("<=", num(ii.min()), x), app("<=", x, num(ii.max())))
}

// wrapAddSub: x is known to lie within one modulus of the range.
func (ii intInfo) wrap1(x string) string {
	m := num(pow2(ii.bits))
	return ite(app(">", x, num(ii.max())), app("-", x, m), ite(app("<", x, num(ii.min())), app("+", x, m), x))
}

// wrap: arbitrary x.
func (ii intInfo) wrap(x string) string {
	m := num(pow2(ii.bits))
	if !ii.signed {
		return app("mod", x, m)
	}
	h := num(pow2(ii.bits - 1))
	return app("-", app("mod", app("+", x, h), m), h)
}

// truncated (Go) division and remainder on mathematical ints; y != 0 assumed.
func truncDiv(x, y string) string {
	// SMT div is floor for positive divisor, ceil for negative: (div x y) with x = y*q + r, 0<=r<|y|
	// truncated: if x >= 0 then (div x y) else (- (div (- x) y))
	return ite(app(">=", x, "0"), app("div", x, y), app("-", app("div", app("-", x), y)))
}
func truncRem(x, y string) string {
	return app("-", x, app("*", y, truncDiv(x, y)))
}

func mangle(s string) string {
	r := strings.NewReplacer("(", "_", ")", "_", " ", "_", "*", "p", "[", "_", "]", "_", "/", "_", ",", "_", "{", "_", "}", "_", ";", "_")
	return r.Replace(s)
}

func sprintf(f string, a ...any) string { return fmt.Sprintf(f, a...) }
