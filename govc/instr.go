package main

import (
	"fmt"
	"go/ast"
	"go/token"
	"go/types"
	"os"
	"sort"
	"strings"

	"golang.org/x/tools/go/ssa"
)

// ---------- function translation driver ----------

func (t *FnTrans) run() (err error) {
	defer func() {
		if r := recover(); r != nil {
			if _, ok := r.(transAbort); ok {
				err = t.failed
				return
			}
			panic(r)
		}
	}()
	fn := t.fn
	if len(fn.Blocks) == 0 {
		t.fail("function %s has no body", fn)
	}
	t.entry = &State{H: map[string]string{}, Held: map[string]int{}}
	t.cur = t.entry.clone()
	t.guard = "true"
	t.comp("$alloc", "Int")
	t.declare(q("$alloc@0"), "Int")
	t.entry.H["$alloc"] = q("$alloc@0")
	t.cur.H["$alloc"] = q("$alloc@0")
	t.emit("(assert (> " + q("$alloc@0") + " 1000))") // addresses 1..1000 are reserved for package-level variables
	t.findLoops()
	t.computeLoopWrites()
	t.collectLocals()

	// parameters
	t.paramVals = map[string]Val{}
	t.paramTypes = map[string]types.Type{}
	for i, p := range fn.Params {
		T := t.resolve(p.Type())
		name := p.Name()
		if name == "" || name == "_" {
			name = fmt.Sprintf("arg%d", i)
		}
		n := q(name)
		t.declare(n, t.sortOf(T))
		v := Val{S: n}
		if _, ok := T.Underlying().(*types.Signature); ok {
			v.Nm = p.Name()
		}
		t.vals[p] = v
		t.paramVals[name] = v
		t.paramTypes[name] = T
		t.notePtrTerm(n, T)
		t.assume(t.rangeFact(n, T))
		if i == 0 && fn.Signature.Recv() != nil {
			t.recvName = name
		}
	}
	for _, fv := range fn.FreeVars {
		T := t.resolve(fv.Type())
		n := q("fv$" + fv.Name())
		t.declare(n, t.sortOf(T))
		v := Val{S: n}
		if _, ok := T.Underlying().(*types.Signature); ok {
			v.Nm = fv.Name()
		}
		t.vals[fv] = v
		t.paramVals[fv.Name()] = v
		t.paramTypes[fv.Name()] = T
		t.assume(t.rangeFact(n, T))
	}
	res := fn.Signature.Results()
	for i := 0; i < res.Len(); i++ {
		t.resTypes = append(t.resTypes, t.resolve(res.At(i).Type()))
		t.resNames = append(t.resNames, res.At(i).Name())
	}
	t.globalAxioms()

	// global invariants of this package hold at entry
	for _, gi := range t.eng.specs.GInv[fn.Pkg.Pkg.Path()] {
		t.assume(t.selfEnv(t.entry, nil).evalBool(gi.E))
	}
	// requires
	env := t.selfEnv(t.entry, nil)
	if t.ct != nil {
		t.inRequires = true
		for i, c := range t.ct.Requires {
			f := env.evalBool(c.E)
			t.assume(f)
			_ = i
		}
		t.inRequires = false
		for _, c := range t.ct.Assumes {
			t.assume(env.evalBool(c.E))
			t.abstr["assumed (unchecked) precondition: "+c.Text] = true
		}
		if len(t.ct.Requires)+len(t.ct.Assumes) > 0 {
			t.cover("requires", "true")
		}
		for _, g := range t.ct.Ghost {
			if g.Arg == "at entry" {
				t.ghostUpdate(g, t.selfEnv(t.cur, t.entry))
			} else if g.Arg == "at return" {
				t.ghostAtReturn = append(t.ghostAtReturn, g)
			}
		}
	}

	// lock state at entry: nothing held except what the contract requires
	for c := range t.compSort {
		if strings.HasPrefix(c, "L.") {
			if e, ok := t.entry.H[c]; ok {
				t.entryLockAxiom(c, e)
			}
		}
	}
	t.entryLocksDone = true
	order := t.rpo()
	t.reach[fn.Blocks[0]] = "true"
	for _, b := range order {
		t.block(b)
	}
	if t.retCount == 0 && t.ct != nil && len(t.ct.Ensures) > 0 && t.ct.PanicsIf == nil {
		t.fail("function never returns but has ensures clauses")
	}
	t.twoPhaseCheck()
	if t.ct != nil {
		for ord := range t.ct.LoopInv {
			if ord > len(t.loops) {
				t.fail("%s:%d: the contract has an invariant for loop %d, the function has %d loop(s) (fail closed)", t.ct.File, t.ct.Line, ord, len(t.loops))
			}
		}
		for _, g := range t.ct.Ghost {
			if (strings.HasPrefix(g.Arg, "before call ") || strings.HasPrefix(g.Arg, "after call ")) && !t.ghostHit[g] {
				t.fail("%s:%d: ghost statement '%s' matches no call site (fail closed)", g.File, g.Line, g.Arg)
			}
		}
	}
	return nil
}

// selfEnv: environment for this function's own contract.
func (t *FnTrans) selfEnv(st, old *State) *Env {
	e := &Env{t: t, vars: map[string]SVal{}, st: st, old: old, pkg: t.fn.Pkg.Pkg, selfAlloc0: q("$alloc@0"), self: true}
	for n, v := range t.paramVals {
		e.vars[n] = SVal{S: v.S, T: t.paramTypes[n], Sort: t.sortOf(t.paramTypes[n])}
	}
	return e
}

func (t *FnTrans) block(b *ssa.BasicBlock) {
	hd := t.loops[b]
	// compute in-state from forward predecessors
	if b != t.fn.Blocks[0] {
		var preds []*ssa.BasicBlock
		var conds []string
		for _, p := range b.Preds {
			if b.Dominates(p) && hd != nil {
				continue // back edge
			}
			if _, ok := t.blkOut[p]; !ok {
				continue // unreachable predecessor
			}
			preds = append(preds, p)
			conds = append(conds, t.edgeCond(p, b))
		}
		if len(preds) == 0 {
			return // unreachable
		}
		r := q(fmt.Sprintf("reach$%d", b.Index))
		t.define(r, "Bool", or(conds...))
		t.reach[b] = r
		t.guard = r
		t.cur = t.mergeStates(preds, conds, b)
		// phis
		if hd == nil {
			for _, in := range b.Instrs {
				phi, ok := in.(*ssa.Phi)
				if !ok {
					break
				}
				t.vals[phi] = t.phiVal(phi, b, preds, conds)
			}
		}
	}
	// set current loop nest
	t.curLoops = nil
	for _, l := range t.loops {
		if l.body[b] {
			t.curLoops = append(t.curLoops, l)
		}
	}
	if hd != nil {
		t.loopHead(b, hd)
	}
	for _, in := range b.Instrs {
		if _, ok := in.(*ssa.Phi); ok {
			continue
		}
		t.curInstr = in
		t.instr(in)
	}
	t.curInstr = nil
	t.blkOut[b] = t.cur
}

func (t *FnTrans) edgeCond(p, s *ssa.BasicBlock) string {
	r := t.reach[p]
	if c, ok := t.edgeC[[2]int{p.Index, s.Index}]; ok {
		return and(r, c)
	}
	return r
}

func (t *FnTrans) mergeStates(preds []*ssa.BasicBlock, conds []string, b *ssa.BasicBlock) *State {
	if len(preds) == 1 {
		return t.blkOut[preds[0]].clone()
	}
	out := &State{H: map[string]string{}, Held: map[string]int{}}
	for _, p := range preds {
		for k := range t.blkOut[p].Held {
			out.Held[k] = t.blkOut[p].Held[k]
		}
	}
	for k := range out.Held {
		for _, p := range preds {
			if v, ok := t.blkOut[p].Held[k]; !ok || v != out.Held[k] {
				if !ok && out.Held[k] == 0 {
					continue
				}
				out.Held[k] = -1
			}
		}
	}
	var gens []string
	for _, p := range preds {
		gens = append(gens, t.blkOut[p].Gen)
	}
	out.Gen = t.mergeGen(conds, gens)
	comps := map[string]bool{}
	for _, p := range preds {
		for c := range t.blkOut[p].H {
			comps[c] = true
		}
	}
	for c := range comps {
		var terms []string
		same := true
		for _, p := range preds {
			v, ok := t.blkOut[p].H[c]
			if !ok {
				v = t.genVersion(c, t.blkOut[p].Gen)
			}
			terms = append(terms, v)
			if v != terms[0] {
				same = false
			}
		}
		if same {
			out.H[c] = terms[0]
			continue
		}
		m := terms[len(terms)-1]
		for i := len(terms) - 2; i >= 0; i-- {
			m = ite(conds[i], terms[i], m)
		}
		n := q(fmt.Sprintf("%s@b%d", c, b.Index))
		t.define(n, t.compSort[c], m)
		out.H[c] = n
	}
	return out
}

func (t *FnTrans) entryVersion(c string) string {
	if v, ok := t.entry.H[c]; ok {
		return v
	}
	n := q(c + "@0")
	if !t.declared[n] {
		t.declare(n, t.compSort[c])
		t.typedFresh(c, n)
		if strings.HasPrefix(c, "TD.") {
			t.emit(fmt.Sprintf("(assert (forall ((td$r Int)) (! (>= (select %s td$r) 0) :pattern ((select %s td$r)))))", n, n))
		}
	}
	t.entry.H[c] = n
	return n
}

func (t *FnTrans) phiVal(phi *ssa.Phi, b *ssa.BasicBlock, preds []*ssa.BasicBlock, conds []string) Val {
	var terms []string
	var vs []Val
	for _, p := range preds {
		for i, bp := range b.Preds {
			if bp == p {
				v := t.val(phi.Edges[i])
				vs = append(vs, v)
				terms = append(terms, t.termOf(v, phi.Edges[i]))
				break
			}
		}
	}
	// function-valued phi with identical static info
	m := terms[len(terms)-1]
	for i := len(terms) - 2; i >= 0; i-- {
		m = ite(conds[i], terms[i], m)
	}
	n := q(phi.Name())
	t.define(n, t.sortOf(phi.Type()), m)
	r := Val{S: n}
	if _, isSig := t.resolve(phi.Type()).Underlying().(*types.Signature); isSig && phi.Comment != "" {
		r.Nm = phi.Comment // local function variable: callback contract by its source name
	}
	return r
}

// termOf: SMT term of a value; materialises pointers where possible.
func (t *FnTrans) termOf(v Val, sv ssa.Value) string {
	if v.S != "" {
		return v.S
	}
	if v.P != nil {
		switch v.P.Kind {
		case "obj", "cell", "elemrow":
			return v.P.Ref
		case "field":
			// address of a struct embedded by value (or of a scalar field): injective function of the owner
			return t.addrTerm(v.P)
		}
	}
	name := "?"
	if sv != nil {
		name = sv.Name() + " (" + sv.Type().String() + ")"
	}
	t.fail("value %s has no SMT term (escaping interior pointer or tuple)", name)
	return ""
}

func (t *FnTrans) term(v ssa.Value) string { return t.termOf(t.val(v), v) }

// ---------- loops ----------

// autoRangeInv: the bounds of the hidden counters of `for i := range slice` (rangeindex) and
// `for i := range n` (rangeint.iter) loops, derived from the SSA pattern: returns the counter phi, its
// lower bound and the SSA value it stays below.
func (t *FnTrans) autoRangeInv(b *ssa.BasicBlock, l *loopInfo) (phi *ssa.Phi, lo string, hi ssa.Value) {
	for _, in := range b.Instrs {
		p, ok := in.(*ssa.Phi)
		if !ok {
			break
		}
		switch p.Comment {
		case "rangeindex":
			// header: t = phi+1 ; c = t < LEN
			for _, in2 := range b.Instrs {
				if bo, ok := in2.(*ssa.BinOp); ok && bo.Op == token.LSS {
					if add, ok := bo.X.(*ssa.BinOp); ok && add.Op == token.ADD && add.X == p {
						if !t.definedInLoop(bo.Y, l) {
							return p, "(- 1)", bo.Y
						}
					}
				}
			}
		case "rangeint.iter":
			// rotated loop: the latch computes t = phi+1 ; c = t < N
			for blk := range l.body {
				for _, in2 := range blk.Instrs {
					if bo, ok := in2.(*ssa.BinOp); ok && bo.Op == token.LSS {
						if add, ok := bo.X.(*ssa.BinOp); ok && add.Op == token.ADD && add.X == p {
							if !t.definedInLoop(bo.Y, l) {
								return p, "0", bo.Y
							}
						}
					}
				}
			}
		}
	}
	return nil, "", nil
}

func (t *FnTrans) definedInLoop(v ssa.Value, l *loopInfo) bool {
	if in, ok := v.(ssa.Instruction); ok && in.Block() != nil {
		return l.body[in.Block()]
	}
	return false
}

func (t *FnTrans) loopHead(b *ssa.BasicBlock, l *loopInfo) {
	// base: invariant holds on entry (phis bound to forward incoming values)
	var invs []*Clause
	if t.ct != nil {
		invs = t.ct.LoopInv[l.ordinal]
	}
	fwd := map[*ssa.Phi]Val{}
	var preds []*ssa.BasicBlock
	var conds []string
	for _, p := range b.Preds {
		if b.Dominates(p) {
			continue
		}
		if _, ok := t.blkOut[p]; !ok {
			continue
		}
		preds = append(preds, p)
		conds = append(conds, t.edgeCond(p, b))
	}
	for _, in := range b.Instrs {
		phi, ok := in.(*ssa.Phi)
		if !ok {
			break
		}
		// temporarily define under a different name
		save := phi.Name()
		_ = save
		var terms []string
		for _, p := range preds {
			for i, bp := range b.Preds {
				if bp == p {
					terms = append(terms, t.term(phi.Edges[i]))
					break
				}
			}
		}
		m := terms[len(terms)-1]
		for i := len(terms) - 2; i >= 0; i-- {
			m = ite(conds[i], terms[i], m)
		}
		fwd[phi] = Val{S: m}
	}
	pre := t.cur.clone()
	aphi, alo, ahi := t.autoRangeInv(b, l)
	if aphi != nil {
		if _, ok := t.vals[ahi]; !ok {
			if _, isC := ahi.(*ssa.Const); !isC {
				aphi = nil
			}
		}
	}
	if aphi != nil {
		f := fwd[aphi].S
		t.obligeNamed(fmt.Sprintf("inv.%d.auto.base", l.ordinal), "inv.base", and(app("<=", alo, f), app("<", f, t.term(ahi))), "range counter stays within its bounds (derived from the loop's SSA form)")
		t.autoInv[b] = [3]string{alo, t.term(ahi), ""}
	}
	for i, c := range invs {
		env := t.loopEnv(b, t.cur, func(phi *ssa.Phi) Val { return fwd[phi] })
		t.obligeNamed(fmt.Sprintf("inv.%d.%d.base", l.ordinal, i+1), "inv.base", env.evalBool(c.E), c.Text)
	}
	// havoc
	for _, in := range b.Instrs {
		phi, ok := in.(*ssa.Phi)
		if !ok {
			break
		}
		n := q(phi.Name())
		T := t.resolve(phi.Type())
		t.declare(n, t.sortOf(T))
		t.vals[phi] = Val{S: n}
	}
	if l.all {
		for c := range t.compSort {
			t.cur.H[c] = t.freshVersion(c, "@L")
		}
		t.havocRest()
		t.abstr["loop-havoc-all"] = true
	} else {
		for c := range l.writes {
			if _, ok := t.compSort[c]; !ok {
				t.fail("internal: loop write-set component %s has no sort", c)
			}
			t.cur.H[c] = t.freshVersion(c, "@L")
		}
	}
	// automatic loop frame: a component written only through loop-invariant bases keeps its
	// pre-loop content everywhere else
	if !l.all {
		for c := range l.writes {
			if l.viaBad[c] || c == "$alloc" || (len(l.via[c])+len(l.viaExpr[c]) == 0 && os.Getenv("GOVC_NOEMPTY") != "") {
				continue
			}
			s := t.compSort[c]
			if !strings.HasPrefix(s, "(Array Int ") {
				continue
			}
			var conds []string
			ok := true
			for _, v := range l.via[c] {
				val, has := t.vals[v]
				if !has {
					if u, isU := v.(*ssa.UnOp); isU {
						// re-load of a field of a loop-invariant object; the field must not change in the loop
						if fa, isFA := u.X.(*ssa.FieldAddr); isFA {
							if comp, _, okc := t.staticFieldComp(fa); okc && !l.writes[comp] {
								if xv, hasX := t.vals[fa.X]; hasX || isParamOrConst(fa.X) {
									if !hasX {
										xv = t.val(fa.X)
									}
									if xt := t.termOfOpt(xv); xt != "" {
										val, has = Val{S: app("select", t.get(comp), xt)}, true
									}
								}
							}
						}
					}
				}
				if !has {
					if u, isU := v.(*ssa.UnOp); isU && u.Op == token.MUL {
						// re-load of a variable cell that lives outside the loop and is not written by it
						_, isFV := u.X.(*ssa.FreeVar)
						al, isAl := u.X.(*ssa.Alloc)
						if isFV || (isAl && al.Block() != nil && !l.body[al.Block()]) {
							if _, known := t.vals[u.X]; known || isFV {
								if cp := t.ptrOf(u.X); cp != nil && cp.Comp != "" && !l.writes[cp.Comp] {
									val, has = Val{S: t.load(cp)}, true
								}
							}
						}
					}
				}
				if !has {
					if _, isC := v.(*ssa.Const); !isC {
						if _, isP := v.(*ssa.Parameter); !isP {
							ok = false
							break
						}
					}
					val = t.val(v)
				}
				term := t.termOfOpt(val)
				if term == "" {
					ok = false
					break
				}
				if strings.HasPrefix(c, "E.") {
					term = app("s.base", term)
				}
				conds = append(conds, not(eq("lf$r", term)))
			}
			for _, ve := range l.viaExpr[c] {
				term, good := t.viaExprTerm(ve, l)
				if !good {
					ok = false
					break
				}
				if ve.kind == "elems" {
					term = app("s.base", term)
				}
				conds = append(conds, not(eq("lf$r", term)))
			}
			if !ok {
				continue
			}
			preTerm, has := pre.H[c]
			if !has {
				preTerm = t.genVersion(c, pre.Gen)
			}
			// objects allocated inside the loop are unconstrained; everything that existed before the loop and is
			// not one of the written bases keeps its content
			conds = append(conds, app("<", "lf$r", pre.H["$alloc"]))
			t.assume(fmt.Sprintf("(forall ((lf$r Int)) (! %s :pattern ((select %s lf$r))))", implies(and(conds...), eq(app("select", t.cur.H[c], "lf$r"), app("select", preTerm, "lf$r"))), t.cur.H[c]))
		}
	}
	// allocation counter only grows
	if l.all || l.writes["$alloc"] {
		t.assume(app(">=", t.cur.H["$alloc"], pre.H["$alloc"]))
	}
	for _, in := range b.Instrs {
		phi, ok := in.(*ssa.Phi)
		if !ok {
			break
		}
		t.assume(t.rangeFact(t.vals[phi].S, phi.Type()))
	}
	t.loopPre[b] = pre
	if aphi != nil {
		ai := t.autoInv[b]
		t.assume(and(app("<=", ai[0], t.vals[aphi].S), app("<", t.vals[aphi].S, ai[1])))
		t.autoPhi[b] = aphi
	}
	for _, c := range invs {
		env := t.loopEnv(b, t.cur, nil)
		env.old = t.entry
		t.assume(env.evalBool(c.E))
	}
}

// loopEnv: environment for evaluating loop invariants of header b. phiOverride maps the
// header's phis to the values to use (nil: their own constants).
func (t *FnTrans) loopEnv(b *ssa.BasicBlock, st *State, phiOverride func(*ssa.Phi) Val) *Env {
	env := t.selfEnv(st, t.entry)
	env.local = func(name string) (SVal, bool) {
		// header phi with that source name
		for _, in := range b.Instrs {
			phi, ok := in.(*ssa.Phi)
			if !ok {
				break
			}
			if phi.Comment == name {
				v := t.vals[phi]
				if phiOverride != nil {
					v = phiOverride(phi)
				}
				T := t.resolve(phi.Type())
				return SVal{S: v.S, T: T, Sort: t.sortOf(T)}, true
			}
		}
		if v, ok := t.localAt(name, b, st); ok {
			if phiOverride != nil {
				for _, in := range b.Instrs {
					phi, isPhi := in.(*ssa.Phi)
					if !isPhi {
						break
					}
					if pv, has := t.vals[phi]; has && pv.S == v.S {
						v.S = phiOverride(phi).S
					}
				}
			}
			return v, true
		}
		// range-over-int loops: the loop variable is the hidden iteration counter of the header
		for _, in := range b.Instrs {
			phi, ok := in.(*ssa.Phi)
			if !ok {
				break
			}
			if phi.Comment == "rangeint.iter" && t.rangeIntVar(b) == name {
				v := t.vals[phi]
				if phiOverride != nil {
					v = phiOverride(phi)
				}
				T := t.resolve(phi.Type())
				return SVal{S: v.S, T: T, Sort: t.sortOf(T)}, true
			}
		}
		return SVal{}, false
	}
	return env
}

// rangeIntVar: source name of the variable of the `for v := range n` loop whose body starts at b.
func (t *FnTrans) rangeIntVar(b *ssa.BasicBlock) string {
	if t.fn.Syntax() == nil {
		return ""
	}
	var pos token.Pos
	for _, in := range b.Instrs {
		if _, isPhi := in.(*ssa.Phi); isPhi {
			continue
		}
		if p := in.Pos(); p.IsValid() {
			pos = p
			break
		}
	}
	name := ""
	best := token.Pos(0)
	ast.Inspect(t.fn.Syntax(), func(n ast.Node) bool {
		if rs, ok := n.(*ast.RangeStmt); ok && rs.Key != nil {
			if id, ok := rs.Key.(*ast.Ident); ok && rs.Pos() <= pos && pos <= rs.End() && rs.Pos() >= best {
				// innermost enclosing range statement whose body contains the block's first position
				if tv, ok := t.fn.Pkg.Prog.Fset, true; ok && tv != nil {
					best = rs.Pos()
					name = id.Name
				}
			}
		}
		return true
	})
	return name
}

func (t *FnTrans) backEdge(from, head *ssa.BasicBlock) {
	l := t.loops[head]
	var invs []*Clause
	if t.ct != nil {
		invs = t.ct.LoopInv[l.ordinal]
	}
	saveG := t.guard
	t.guard = t.edgeCond(from, head)
	ov := func(phi *ssa.Phi) Val {
		for i, bp := range head.Preds {
			if bp == from {
				return Val{S: t.term(phi.Edges[i])}
			}
		}
		t.fail("back edge value not found")
		return Val{}
	}
	// a loop with several back edges (continue statements): one group of step obligations per edge
	edge := ""
	if k := t.count(fmt.Sprintf("backedge:%d", l.ordinal)); k > 1 {
		edge = fmt.Sprintf("@edge%d", k)
	}
	if ap := t.autoPhi[head]; ap != nil {
		ai := t.autoInv[head]
		nv := ov(ap).S
		t.obligeNamed(fmt.Sprintf("inv.%d.auto.step%s", l.ordinal, edge), "inv.step", and(app("<=", ai[0], nv), app("<", nv, ai[1])), "range counter stays within its bounds (derived from the loop's SSA form)")
	}
	for i, c := range invs {
		env := t.loopEnv(head, t.cur, ov)
		t.obligeNamed(fmt.Sprintf("inv.%d.%d.step%s", l.ordinal, i+1, edge), "inv.step", env.evalBool(c.E), c.Text)
	}
	t.guard = saveG
}

// ---------- locals (for loop invariants and asserts) ----------

func (t *FnTrans) collectLocals() {
	t.locals = map[string][]localDef{}
	for _, b := range t.fn.Blocks {
		for ii, in := range b.Instrs {
			switch x := in.(type) {
			case *ssa.DebugRef:
				if x.IsAddr {
					continue
				}
				obj := x.Object()
				if obj == nil {
					continue
				}
				if _, ok := obj.(*types.Var); !ok {
					continue
				}
				t.locals[obj.Name()] = append(t.locals[obj.Name()], localDef{v: x.X, blk: b, pos: x.Pos(), idx: ii})
			case *ssa.Alloc:
				if x.Comment != "" && !strings.Contains(x.Comment, " ") {
					t.locals["&"+x.Comment] = append(t.locals["&"+x.Comment], localDef{v: x, blk: b})
				}
			case *ssa.Phi:
				if x.Comment != "" {
					t.locals[x.Comment] = append(t.locals[x.Comment], localDef{v: x, blk: b, pos: token.NoPos, idx: ii})
				}
			}
		}
	}
}

// localAt resolves a source-level local variable name at the start of block b.
func (t *FnTrans) localAt(name string, b *ssa.BasicBlock, st *State) (SVal, bool) {
	// address-taken local: load from its cell
	if defs, ok := t.locals["&"+name]; ok && len(defs) >= 1 {
		a := defs[0].v.(*ssa.Alloc)
		if v, ok := t.vals[a]; ok {
			T := t.resolve(a.Type().(*types.Pointer).Elem())
			p := v.P
			if p == nil {
				p = t.ptrFromRef(v.S, T)
			}
			save := t.cur
			t.cur = st
			s := t.load(p)
			t.cur = save
			return SVal{S: s, T: T, Sort: t.sortOf(T)}, true
		}
	}
	defs := t.locals[name]
	var best *localDef
	for i := range defs {
		d := &defs[i]
		if _, ok := t.vals[d.v]; !ok {
			if _, isC := d.v.(*ssa.Const); !isC {
				continue
			}
		}
		if d.blk == b {
			if _, isPhi := d.v.(*ssa.Phi); !isPhi {
				continue
			}
		} else if !d.blk.Dominates(b) {
			continue
		}
		if best == nil || best.blk.Dominates(d.blk) && (best.blk != d.blk || d.pos >= best.pos) {
			best = d
		}
	}
	if best == nil {
		return SVal{}, false
	}
	T := t.resolve(best.v.Type())
	return SVal{S: t.term(best.v), T: T, Sort: t.sortOf(T)}, true
}

// localHere resolves a source-level local variable at the current instruction: its latest definition
// earlier in the same block, else the closest one in a dominating block.
func (t *FnTrans) localHere(name string) (SVal, bool) {
	if t.curInstr == nil {
		return SVal{}, false
	}
	b := t.curInstr.Block()
	here := -1
	for i, in := range b.Instrs {
		if in == t.curInstr {
			here = i
		}
	}
	if defs, ok := t.locals["&"+name]; ok && len(defs) >= 1 {
		// several variables of that name (different scopes): the one declared last before this point
		var pick *ssa.Alloc
		for i := range defs {
			a := defs[i].v.(*ssa.Alloc)
			if _, ok := t.vals[a]; !ok {
				continue
			}
			if a.Pos() > t.curInstr.Pos() && t.curInstr.Pos().IsValid() {
				continue
			}
			if pick == nil || a.Pos() > pick.Pos() {
				pick = a
			}
		}
		if pick != nil {
			v := t.vals[pick]
			T := t.resolve(pick.Type().(*types.Pointer).Elem())
			p := v.P
			if p == nil {
				p = t.ptrFromRef(v.S, T)
			}
			// a single-assignment cell: its stored value
			if st, ok := t.singleAssignCache[pick]; ok && st != nil {
				if sv, has := t.vals[st.Val]; has || isConst(st.Val) {
					_ = sv
					return SVal{S: t.term(st.Val), T: T, Sort: t.sortOf(T)}, true
				}
			}
			return SVal{S: t.load(p), T: T, Sort: t.sortOf(T)}, true
		}
		return t.localAt(name, b, t.cur)
	}
	var best *localDef
	defs := t.locals[name]
	for i := range defs {
		d := &defs[i]
		if _, ok := t.vals[d.v]; !ok {
			if _, isC := d.v.(*ssa.Const); !isC {
				continue
			}
		}
		if d.blk == b {
			if d.idx >= here {
				continue
			}
		} else if !d.blk.Dominates(b) {
			continue
		}
		if best == nil {
			best = d
			continue
		}
		switch {
		case d.blk == b && best.blk != b:
			best = d
		case d.blk == b && best.blk == b && d.idx > best.idx:
			best = d
		case d.blk != b && best.blk != b && best.blk.Dominates(d.blk) && (best.blk != d.blk || d.idx > best.idx):
			best = d
		}
	}
	if best == nil {
		return SVal{}, false
	}
	T := t.resolve(best.v.Type())
	return SVal{S: t.term(best.v), T: T, Sort: t.sortOf(T)}, true
}

// ---------- instructions ----------

func (t *FnTrans) setVal(v ssa.Value, x Val) { t.vals[v] = x }

// bind defines an SSA value as a named constant equal to term.
func (t *FnTrans) bind(v ssa.Value, term string) {
	n := q(v.Name())
	t.define(n, t.sortOf(v.Type()), term)
	t.vals[v] = Val{S: n}
	t.notePtrTerm(n, v.Type())
}

// notePtrTerm remembers SSA values that point to struct objects (instantiation candidates for
// hypotheses quantified over objects).
func (t *FnTrans) notePtrTerm(name string, T types.Type) {
	if p, ok := t.resolve(T).Underlying().(*types.Pointer); ok {
		if _, isS := t.resolve(p.Elem()).Underlying().(*types.Struct); isS {
			t.ptrTerms = append(t.ptrTerms, ptrTerm{name, len(t.lines)})
		}
	}
}

// havocVal gives v an unconstrained value of its type (plus range facts).
func (t *FnTrans) havocVal(v ssa.Value) {
	T := t.resolve(v.Type())
	if tup, ok := T.(*types.Tuple); ok {
		var vs []Val
		for i := 0; i < tup.Len(); i++ {
			n := t.newConst(fmt.Sprintf("%s.%d", v.Name(), i), t.sortOf(tup.At(i).Type()))
			t.assume(t.rangeFact(n, tup.At(i).Type()))
			vs = append(vs, Val{S: n})
		}
		t.vals[v] = Val{Tup: vs}
		return
	}
	n := q(v.Name())
	t.declare(n, t.sortOf(T))
	t.assume(t.rangeFact(n, T))
	t.vals[v] = Val{S: n}
}

func (t *FnTrans) nilCheck(ref string, what string) {
	t.oblige("nil", not(eq(ref, "0")), what)
}

func (t *FnTrans) instr(in ssa.Instruction) {
	switch x := in.(type) {
	case *ssa.DebugRef:
	case *ssa.BinOp:
		t.binop(x)
	case *ssa.UnOp:
		t.unop(x)
	case *ssa.Convert:
		t.convert(x)
	case *ssa.MultiConvert:
		// conversion inside a generic body whose type parameter has several core types: decided by the instantiation
		from, to := t.resolve(x.X.Type()), t.resolve(x.Type())
		_, fromTP := from.(*types.TypeParam)
		_, toTP := to.(*types.TypeParam)
		fi, fok := intInfoOf(from)
		ti, tok := intInfoOf(to)
		switch {
		case fromTP || toTP:
			t.fail("MultiConvert on an uninstantiated type parameter (instantiate the contract)")
		case fok && tok:
			a := t.term(x.X)
			if ti.bits > fi.bits && (fi.signed == ti.signed || !fi.signed) || ti == fi {
				t.bind(x, a)
			} else {
				t.bind(x, ti.wrap(a))
			}
		case t.sortOf(from) == t.sortOf(to) && t.sortOf(to) != "Float":
			t.vals[x] = t.val(x.X)
		default:
			t.abstr["float"] = true
			t.havocVal(x)
		}
	case *ssa.ChangeType:
		v := t.val(x.X)
		if v.S != "" {
			if c, ok := t.convStruct(v.S, x.X.Type(), x.Type()); ok {
				t.bind(x, c)
				break
			}
		}
		t.vals[x] = v
	case *ssa.ChangeInterface:
		t.vals[x] = t.val(x.X)
	case *ssa.MakeInterface:
		t.makeInterface(x)
	case *ssa.TypeAssert:
		t.typeAssert(x)
	case *ssa.Extract:
		tv := t.val(x.Tuple)
		if x.Index >= len(tv.Tup) {
			t.fail("extract %d of %s", x.Index, x.Tuple.Name())
		}
		t.vals[x] = tv.Tup[x.Index]
		if n := tv.Tup[x.Index].S; n != "" && !strings.ContainsAny(n, " (") {
			t.notePtrTerm(n, x.Type())
		}
	case *ssa.Alloc:
		t.alloc(x)
	case *ssa.FieldAddr:
		pt := t.resolve(x.X.Type()).Underlying().(*types.Pointer)
		base := t.ptrOf(x.X)
		if base.Kind == "obj" {
			t.nilCheck(base.Ref, "field address of nil pointer")
		}
		_ = pt
		t.vals[x] = Val{P: t.fieldPtr(base, x.Field)}
	case *ssa.Field:
		sv := t.val(x.X)
		ST := t.resolve(x.X.Type())
		st := ST.Underlying().(*types.Struct)
		t.bind(x, app(q(t.sortOf(ST)+"."+fieldAcc(st, x.Field)), sv.S))
	case *ssa.IndexAddr:
		t.indexAddr(x)
	case *ssa.Index:
		t.index(x)
	case *ssa.Store:
		if t.isReturnSelfStore(x) {
			break
		}
		p := t.ptrOf(x.Addr)
		if p.Kind == "cell" || p.Kind == "obj" || p.Kind == "elemrow" {
			t.nilCheck(p.Ref, "store through nil pointer")
		}
		t.checkGuarded(p, true)
		if p.Kind != "cell" || !t.isLocalAlloc(x.Addr) {
			if t.sortOf(x.Val.Type()) == "Int" {
				if _, isInt := intInfoOf(t.resolve(x.Val.Type())); !isInt {
					t.mayHavePublished = true
				}
			}
		}
		t.store(p, t.term(x.Val))
	case *ssa.Slice:
		t.sliceOp(x)
	case *ssa.MakeSlice:
		t.makeSlice(x)
	case *ssa.MakeMap:
		t.makeMap(x)
	case *ssa.MakeChan:
		r := t.allocRef()
		t.bind(x, r)
		// a new channel is open
		cc := t.comp("CH.closed", "(Array Int Bool)")
		t.cur.H[cc] = app("store", t.get(cc), t.vals[x].S, "false")
	case *ssa.MakeClosure:
		fn := x.Fn.(*ssa.Function)
		var b []Val
		for _, bv := range x.Bindings {
			b = append(b, t.val(bv))
		}
		r := t.allocRef()
		n := q(x.Name())
		t.define(n, "Int", r)
		t.vals[x] = Val{S: n, Fn: fn, Bnd: b}
	case *ssa.Lookup:
		t.lookup(x)
	case *ssa.MapUpdate:
		t.mapUpdate(x)
	case *ssa.Range:
		t.rangeInit(x)
	case *ssa.Next:
		t.rangeNext(x)
	case *ssa.Call:
		t.call(x, &x.Call, x)
	case *ssa.Defer:
		if len(t.curLoops) > 0 {
			t.fail("defer inside a loop is outside the supported subset")
		}
		// evaluate arguments now
		t.defers = append(t.defers, deferRec{call: x, guard: t.guard})
		for _, a := range x.Call.Args {
			t.val(a)
		}
	case *ssa.RunDefers:
		// ghost updates "at return" logically happen before deferred calls (e.g. Unlock) run,
		// when the results are already determined
		blk := x.Block()
		if r, ok := blk.Instrs[len(blk.Instrs)-1].(*ssa.Return); ok && len(t.ghostAtReturn) > 0 && !t.ghostDone[r] {
			ready := true
			early := map[ssa.Value]string{}
			for _, rv := range r.Results {
				if _, isC := rv.(*ssa.Const); isC {
					continue
				}
				if _, ok := t.vals[rv]; ok {
					continue
				}
				// result cells (functions with defers keep results in allocs that are re-loaded after
				// the deferred calls): read the cell now; sound when no deferred call writes it, which
				// holds when all defers are lock intrinsics
				if u, ok := rv.(*ssa.UnOp); ok && u.Op == token.MUL {
					if a, ok := u.X.(*ssa.Alloc); ok && t.onlyLockDefers() {
						if _, ok := t.vals[a]; ok {
							early[rv] = t.load(t.ptrOf(a))
							continue
						}
					}
				}
				ready = false
			}
			if ready {
				t.earlyRes = early
				t.runReturnGhosts(r)
				t.earlyRes = nil
			}
		}
		t.deferSite = x
		t.runDefers()
		t.deferSite = nil
	case *ssa.Go:
		t.goStmt(x)
	case *ssa.If:
		c := t.term(x.Cond)
		b := x.Block()
		t.edgeC[[2]int{b.Index, b.Succs[0].Index}] = c
		t.edgeC[[2]int{b.Index, b.Succs[1].Index}] = not(c)
		if b.Succs[0] == b.Succs[1] {
			delete(t.edgeC, [2]int{b.Index, b.Succs[0].Index})
		}
		for _, s := range b.Succs {
			if s.Dominates(b) && t.loops[s] != nil {
				t.backEdge(b, s)
			}
		}
	case *ssa.Jump:
		b := x.Block()
		if s := b.Succs[0]; s.Dominates(b) && t.loops[s] != nil {
			t.backEdge(b, s)
		}
	case *ssa.Return:
		t.ret(x)
	case *ssa.Panic:
		t.panicInstr(x)
	case *ssa.Send:
		t.abstr["chan-send"] = true
		t.ghostAt("before send") // ghost statements attached to channel sends of this function
	case *ssa.Select:
		t.selectInstr(x)
	case *ssa.SliceToArrayPointer:
		// (*[N]T)(s): panics when len(s) < N; the array it points to is the slice's backing store, which is
		// abstracted here: the result is an unconstrained non-nil pointer (what is read through it is arbitrary)
		sv := t.term(x.X)
		if at, ok := t.resolve(x.Type()).Underlying().(*types.Pointer); ok {
			if arr, ok := t.resolve(at.Elem()).Underlying().(*types.Array); ok {
				t.oblige("slice2array", app(">=", app("s.len", sv), fmt.Sprint(arr.Len())), "conversion of a slice to an array of greater length panics")
			}
		}
		r := t.allocRef()
		t.bind(x, r)
		// the array it points to: an (uninterpreted) function of the slice's byte content, so that equal bytes give
		// equal arrays; only byte arrays are related, other element types stay unconstrained
		if at, ok := t.resolve(x.Type()).Underlying().(*types.Pointer); ok {
			if arr, ok := t.resolve(at.Elem()).Underlying().(*types.Array); ok {
				if b, ok := t.resolve(arr.Elem()).Underlying().(*types.Basic); ok && b.Kind() == types.Uint8 {
					ec := t.comp("E.Int", "(Array Int (Array Int Int))")
					t.declareFun("arr$ofstr", []string{"Str"}, "(Array Int Int)")
					prefix := app("mk-slice", app("s.base", sv), app("s.off", sv), fmt.Sprint(arr.Len()), fmt.Sprint(arr.Len()))
					t.cur.H[ec] = app("store", t.get(ec), t.vals[x].S, app("arr$ofstr", t.bytesToStr(prefix)))
					t.abstr["slice-to-array conversion: the array is an uninterpreted function of the bytes"] = true
					break
				}
			}
		}
		t.abstr["slice-to-array conversion: the array value is unconstrained"] = true
	default:
		t.fail("unsupported instruction %T: %s", in, in)
	}
}

func (t *FnTrans) isLocalAlloc(v ssa.Value) bool {
	_, ok := v.(*ssa.Alloc)
	return ok
}

// viaExprTerm evaluates, at the loop head, the location a callee writes to (a spec path expression
// over the callee's parameters) when all arguments are loop-invariant and no field on the path is
// written by the loop.
func (t *FnTrans) viaExprTerm(ve viaExpr, l *loopInfo) (string, bool) {
	env := &Env{t: t, vars: map[string]SVal{}, st: t.cur, pkg: ve.pkg, selfAlloc0: q("$alloc@0")}
	for name, v := range ve.args {
		var val Val
		if in, isIn := v.(ssa.Instruction); isIn && in.Block() != nil && l.body[in.Block()] {
			// defined in the loop: only a re-load of an unwritten field of a loop-invariant object is acceptable
			term, good := t.reloadTerm(v, l)
			if !good {
				if ve.ptypes[name] == nil || !exprMentions(ve.e, name) {
					continue // argument not used by the path expression
				}
				return "", false
			}
			val = Val{S: term}
		} else {
			var has bool
			val, has = t.vals[v]
			if !has {
				if !isParamOrConst(v) {
					return "", false
				}
				val = t.val(v)
			}
		}
		T := ve.ptypes[name]
		if T == nil {
			continue
		}
		env.vars[name] = SVal{S: t.termOfOpt(val), T: T, Sort: t.sortOf(T), Tgt: val.P}
	}
	// no field on the path may be written by the loop
	var walk func(x *Expr) bool
	walk = func(x *Expr) bool {
		if x.Op == "sel" {
			if !walk(x.Args[0]) {
				return false
			}
			bt := t.staticType(x.Args[0], ve.ptypes)
			if bt == nil {
				return false
			}
			bt = t.resolve(bt)
			if p, ok := bt.Underlying().(*types.Pointer); ok {
				bt = t.resolve(p.Elem())
			}
			st, ok := bt.Underlying().(*types.Struct)
			if !ok {
				return false
			}
			path, _ := findField(st, x.Name)
			if len(path) != 1 {
				return false
			}
			c, _ := t.fieldComp(bt, "", path[0])
			return !l.writes[c]
		}
		return x.Op == "id"
	}
	if !walk(ve.e) {
		return "", false
	}
	ok := true
	var term string
	func() {
		defer func() {
			if r := recover(); r != nil {
				if _, isAbort := r.(transAbort); isAbort {
					t.failed = nil
					ok = false
					return
				}
				panic(r)
			}
		}()
		term = env.eval(ve.e).S
	}()
	return term, ok && term != ""
}

func exprMentions(x *Expr, name string) bool {
	if x == nil {
		return false
	}
	if x.Op == "id" && x.Name == name {
		return true
	}
	for _, a := range x.Args {
		if exprMentions(a, name) {
			return true
		}
	}
	return false
}

// reloadTerm: v is `*(&X.f)` with X loop-invariant and f not written by the loop.
func (t *FnTrans) reloadTerm(v ssa.Value, l *loopInfo) (string, bool) {
	u, ok := v.(*ssa.UnOp)
	if !ok {
		return "", false
	}
	if u.Op == token.MUL {
		// re-load of a variable cell that lives outside the loop (captured variable, local declared before the loop)
		// and is not written by it
		_, isFV := u.X.(*ssa.FreeVar)
		al, isAl := u.X.(*ssa.Alloc)
		if isFV || (isAl && al.Block() != nil && !l.body[al.Block()]) {
			if _, known := t.vals[u.X]; known || isFV {
				if cp := t.ptrOf(u.X); cp != nil && cp.Comp != "" && !l.writes[cp.Comp] {
					return t.load(cp), true
				}
			}
			return "", false
		}
	}
	fa, ok := u.X.(*ssa.FieldAddr)
	if !ok {
		return "", false
	}
	comp, _, ok := t.staticFieldComp(fa)
	if !ok || l.writes[comp] {
		return "", false
	}
	if in, isIn := fa.X.(ssa.Instruction); isIn && in.Block() != nil && l.body[in.Block()] {
		return "", false
	}
	xv, has := t.vals[fa.X]
	if !has {
		if !isParamOrConst(fa.X) {
			return "", false
		}
		xv = t.val(fa.X)
	}
	xt := t.termOfOpt(xv)
	if xt == "" {
		return "", false
	}
	return app("select", t.get(comp), xt), true
}

func isParamOrConst(v ssa.Value) bool {
	switch v.(type) {
	case *ssa.Parameter, *ssa.Const, *ssa.FreeVar:
		return true
	}
	return false
}

func originOf(T types.Type) types.Type {
	if n, ok := T.(*types.Named); ok {
		return n.Origin()
	}
	return T
}

func (t *FnTrans) allocRef() string {
	a := t.get("$alloc")
	r := t.newConst("ref", "Int")
	t.emit("(assert (= " + r + " " + a + "))")
	t.set("$alloc", app("+", a, "1"))
	return r
}

func (t *FnTrans) alloc(x *ssa.Alloc) {
	T := t.resolve(x.Type().(*types.Pointer).Elem())
	r := t.allocRef()
	n := q(x.Name())
	t.define(n, "Int", r)
	p := t.ptrFromRef(n, T)
	t.store0(p, T)
	t.initLocks(T, "", n)
	if ts := t.eng.specs.Types[typeName(T)]; ts != nil && len(ts.GhostZero) > 0 {
		// ghost fields declared "zero" start at 0 in a zero-valued object
		var gns []string
		for gn := range ts.GhostZero {
			gns = append(gns, gn)
		}
		sort.Strings(gns)
		for _, gn := range gns {
			gs := t.ghostSort(ts.GhostField[gn], T)
			gc := t.comp(ghostCompName(originName(T), gn, ts.GhostField[gn], gs), "(Array Int "+gs+")")
			t.cur.H[gc] = app("store", t.get(gc), n, "0")
		}
	}
	t.vals[x] = Val{S: n, P: p}
	if !x.Heap && p != nil && p.Kind == "cell" {
		// a variable cell whose address never leaves this function (go/ssa's escape flag): no callee can change it
		t.privCells = append(t.privCells, p)
	}
}

// keepPrivateCells: snapshot the private variable cells before a total havoc; the returned function restores them
func (t *FnTrans) keepPrivateCells() func() {
	type kept struct{ comp, ref, pre string }
	var ks []kept
	for _, p := range t.privCells {
		if _, ok := t.compSort[p.Comp]; !ok {
			continue
		}
		ks = append(ks, kept{p.Comp, p.Ref, t.get(p.Comp)})
	}
	// objects allocated by this function whose address has not left it yet (not stored, passed, boxed, captured or
	// returned on any path that reaches this call): no callee can reach them, their fields keep their values
	type keptObj struct {
		ref string
		pre map[string]string
	}
	var objs []keptObj
	if t.curInstr != nil && len(t.curLoops) == 0 {
		for _, a := range t.unescapedAllocs(t.curInstr) {
			v, ok := t.vals[a]
			if !ok || v.S == "" {
				continue
			}
			pre := map[string]string{}
			for c := range t.compSort {
				if strings.HasPrefix(c, "H.") {
					pre[c] = t.get(c)
				}
			}
			objs = append(objs, keptObj{v.S, pre})
		}
	}
	return func() {
		for _, k := range ks {
			if now := t.get(k.comp); now != k.pre {
				t.set(k.comp, app("store", now, k.ref, app("select", k.pre, k.ref)))
			}
		}
		for _, o := range objs {
			var cs []string
			for c := range o.pre {
				cs = append(cs, c)
			}
			sort.Strings(cs)
			for _, c := range cs {
				if now := t.get(c); now != o.pre[c] {
					t.set(c, app("store", now, o.ref, app("select", o.pre[c], o.ref)))
				}
			}
		}
	}
}

// unescapedAllocs: the struct allocations of this function that have been executed when `at` runs and whose address
// cannot have left the function by then: every instruction that lets the address escape is strictly dominated by `at`.
func (t *FnTrans) unescapedAllocs(at ssa.Instruction) []*ssa.Alloc {
	var out []*ssa.Alloc
	after := func(e ssa.Instruction) bool { // `at` strictly precedes e on every path
		if e == at {
			return false
		}
		if e.Block() == at.Block() {
			for _, in := range at.Block().Instrs {
				if in == at {
					return true
				}
				if in == e {
					return false
				}
			}
			return false
		}
		return at.Block().Dominates(e.Block())
	}
	before := func(a *ssa.Alloc) bool { // a has run when `at` runs
		if a.Block() == at.Block() {
			for _, in := range at.Block().Instrs {
				if in == ssa.Instruction(a) {
					return true
				}
				if in == at {
					return false
				}
			}
			return false
		}
		return a.Block().Dominates(at.Block())
	}
	var ok func(v ssa.Value, depth int) bool
	ok = func(v ssa.Value, depth int) bool {
		if depth > 4 || v.Referrers() == nil {
			return false
		}
		for _, r := range *v.Referrers() {
			switch x := r.(type) {
			case *ssa.FieldAddr:
				if !ok(x, depth+1) {
					return false
				}
			case *ssa.Store:
				if x.Val == v && !after(x) {
					return false
				}
			case *ssa.UnOp:
				if x.Op != token.MUL && !after(x) {
					return false
				}
			case *ssa.DebugRef:
			default:
				if !after(r) {
					return false
				}
			}
		}
		return true
	}
	for _, b := range t.fn.Blocks {
		for _, in := range b.Instrs {
			a, isA := in.(*ssa.Alloc)
			if !isA || !a.Heap || !before(a) {
				continue
			}
			if _, isS := t.resolve(a.Type().(*types.Pointer).Elem()).Underlying().(*types.Struct); !isS {
				continue
			}
			if ok(a, 0) {
				out = append(out, a)
			}
		}
	}
	return out
}

// initLocks: mutexes embedded in a freshly allocated struct are unlocked.
func (t *FnTrans) initLocks(T types.Type, prefix string, ref string) {
	st, ok := t.resolve(T).Underlying().(*types.Struct)
	if !ok {
		return
	}
	for i := 0; i < st.NumFields(); i++ {
		c, ft := t.fieldComp(T, prefix, i)
		ft = t.resolve(ft)
		if n, ok := ft.(*types.Named); ok && n.Obj().Pkg() != nil && n.Obj().Pkg().Path() == "sync" && (n.Obj().Name() == "Mutex" || n.Obj().Name() == "RWMutex") {
			lc := t.comp("L"+c[1:], "(Array Int Int)")
			save := t.curLoops
			t.cur.H[lc] = app("store", t.get(lc), ref, "0")
			_ = save
			continue
		}
		if n, ok := ft.(*types.Named); ok && n.Obj().Pkg() != nil && n.Obj().Pkg().Path() == "sync/atomic" {
			// the value cell of an atomic embedded by value starts at its zero value
			if ap, ok := t.atomicCell(Val{P: &Ptr{Kind: "field", Comp: c, Ref: ref, T: ft}}, "sync/atomic."+n.Obj().Name()+".Load"); ok {
				t.comp(ap.Comp, "(Array Int "+t.sortOf(ap.T)+")")
				t.cur.H[ap.Comp] = app("store", t.get(ap.Comp), ref, t.zero(ap.T))
			}
			continue
		}
		if _, isS := ft.Underlying().(*types.Struct); isS {
			if ts := t.eng.specs.Types[typeName(ft)]; ts != nil && len(ts.GhostZero) > 0 {
				// ghost fields of a struct embedded by value live at its address
				addr := t.termOfOpt(Val{P: &Ptr{Kind: "field", Comp: c, Ref: ref, T: ft}})
				for gn := range ts.GhostZero {
					gs := t.ghostSort(ts.GhostField[gn], ft)
					gc := t.comp(ghostCompName(originName(ft), gn, ts.GhostField[gn], gs), "(Array Int "+gs+")")
					t.cur.H[gc] = app("store", t.get(gc), addr, "0")
				}
			}
			if ip := t.fieldPtr(&Ptr{Kind: "obj", Ref: ref, T: T}, i); ip.Kind == "obj" && prefix == "" {
				t.initLocks(ft, "", ip.Ref) // interior object at its own address
			} else {
				t.initLocks(ft, c, ref)
			}
		}
	}
}

// store0 zero-initialises the target of p without guarded-by checks.
func (t *FnTrans) store0(p *Ptr, T types.Type) {
	save := t.noGuardCheck
	t.noGuardCheck = true
	t.store(p, t.zero(T))
	t.noGuardCheck = save
}

func (t *FnTrans) binop(x *ssa.BinOp) {
	a, b := t.term(x.X), t.term(x.Y)
	T := t.resolve(x.X.Type())
	var r string
	ii, isInt := intInfoOf(T)
	sortX := t.sortOf(T)
	switch x.Op {
	case token.EQL, token.NEQ:
		r = t.equal(a, b, T, x.Y.Type())
		if x.Op == token.NEQ {
			r = not(r)
		}
	case token.LSS, token.LEQ, token.GTR, token.GEQ:
		op := map[token.Token]string{token.LSS: "<", token.LEQ: "<=", token.GTR: ">", token.GEQ: ">="}[x.Op]
		switch sortX {
		case "Int":
			r = app(op, a, b)
		case "Float":
			f := "f" + map[string]string{"<": "lt", "<=": "le", ">": "gt", ">=": "ge"}[op]
			r = app(f, a, b)
			t.abstr["float"] = true
		case "Str":
			r = app("scmp"+map[string]string{"<": "lt", "<=": "le", ">": "gt", ">=": "ge"}[op], a, b)
			t.abstr["string-order"] = true
		default:
			t.fail("comparison on sort %s", sortX)
		}
	case token.ADD, token.SUB, token.MUL, token.QUO, token.REM:
		switch {
		case isInt && t.ct != nil && t.ct.Opts["assume-no-overflow"] != "" && (x.Op == token.ADD || x.Op == token.SUB || x.Op == token.MUL):
			// declared assumption: this function's integer arithmetic does not overflow (listed in evidence)
			op := map[token.Token]string{token.ADD: "+", token.SUB: "-", token.MUL: "*"}[x.Op]
			r = app(op, a, b)
			t.assume(ii.inRange(r))
			t.abstr["assumed: integer "+x.Op.String()+" does not overflow (opt assume-no-overflow)"] = true
		case isInt:
			switch x.Op {
			case token.ADD:
				r = ii.wrap1(app("+", a, b))
			case token.SUB:
				r = ii.wrap1(app("-", a, b))
			case token.MUL:
				r = ii.wrap(app("*", a, b))
			case token.QUO:
				t.oblige("div", not(eq(b, "0")), "division by zero")
				r = truncDiv(a, b)
				if ii.signed {
					r = ii.wrap1(r)
				}
			case token.REM:
				t.oblige("div", not(eq(b, "0")), "division by zero")
				r = truncRem(a, b)
			}
		case sortX == "Float":
			t.abstr["float"] = true
			r = app("f"+strings.ToLower(x.Op.String()), a, b)
			r = app(map[token.Token]string{token.ADD: "fadd", token.SUB: "fsub", token.MUL: "fmul", token.QUO: "fdiv"}[x.Op], a, b)
		case sortX == "Str" && x.Op == token.ADD:
			r = app("scat", a, b)
		default:
			t.fail("arithmetic on sort %s", sortX)
		}
	case token.SHL, token.SHR:
		r = t.shift(x, a, b, ii)
	case token.AND, token.OR, token.XOR, token.AND_NOT:
		if sortX == "Bool" {
			r = map[token.Token]string{token.AND: "and", token.OR: "or", token.XOR: "xor"}[x.Op]
			r = app(r, a, b)
		} else {
			r = t.bitop(x.Op, a, b, x.X, x.Y, ii)
		}
	default:
		t.fail("unsupported binary operator %s", x.Op)
	}
	t.bind(x, r)
}

func (t *FnTrans) equal(a, b string, TX, TY types.Type) string {
	TX = t.resolve(TX)
	if _, ok := TX.Underlying().(*types.Slice); ok {
		// only comparison with nil is legal
		if a == "(mk-slice 0 0 0 0)" {
			return eq(app("s.base", b), "0")
		}
		return eq(app("s.base", a), "0")
	}
	if t.sortOf(TX) == "Float" {
		t.abstr["float"] = true
		return app("feq", a, b)
	}
	return eq(a, b)
}

func constShift(v ssa.Value) (int64, bool) {
	if c, ok := v.(*ssa.Const); ok && c.Value != nil {
		return c.Int64(), true
	}
	if cv, ok := v.(*ssa.Convert); ok {
		return constShift(cv.X)
	}
	return 0, false
}

func (t *FnTrans) shift(x *ssa.BinOp, a, b string, ii intInfo) string {
	if ys, ok := intInfoOf(t.resolve(x.Y.Type())); ok && ys.signed {
		if _, isC := constShift(x.Y); !isC {
			t.oblige("shift", app(">=", b, "0"), "negative shift count")
		}
	}
	if k, ok := constShift(x.Y); ok {
		if k >= int64(ii.bits) {
			if x.Op == token.SHL {
				return "0"
			}
			if ii.signed {
				return ite(app("<", a, "0"), "(- 1)", "0")
			}
			return "0"
		}
		if x.Op == token.SHL {
			return ii.wrap(app("*", a, num(pow2(int(k)))))
		}
		return app("div", a, num(pow2(int(k)))) // floor division = arithmetic shift
	}
	// variable shift count: case split over 0..bits-1
	var r string
	if x.Op == token.SHL {
		r = "0"
		for k := ii.bits - 1; k >= 0; k-- {
			r = ite(eq(b, fmt.Sprint(k)), ii.wrap(app("*", a, num(pow2(k)))), r)
		}
	} else {
		if ii.signed {
			r = ite(app("<", a, "0"), "(- 1)", "0")
		} else {
			r = "0"
		}
		for k := ii.bits - 1; k >= 0; k-- {
			r = ite(eq(b, fmt.Sprint(k)), app("div", a, num(pow2(k))), r)
		}
	}
	return r
}

func isPow2Minus1(v ssa.Value) (int, bool) {
	c, ok := v.(*ssa.Const)
	if !ok || c.Value == nil {
		return 0, false
	}
	n := c.Int64()
	if n < 0 {
		return 0, false
	}
	for k := 0; k < 63; k++ {
		if n == (int64(1)<<uint(k))-1 {
			return k, true
		}
	}
	return 0, false
}

func (t *FnTrans) bitop(op token.Token, a, b string, X, Y ssa.Value, ii intInfo) string {
	if op == token.AND {
		if k, ok := isPow2Minus1(Y); ok {
			return app("mod", a, num(pow2(k)))
		}
		if k, ok := isPow2Minus1(X); ok {
			return app("mod", b, num(pow2(k)))
		}
	}
	// uninterpreted with sound bounds
	t.abstr["bitop-uninterpreted:"+op.String()] = true
	f := map[token.Token]string{token.AND: "bit.and", token.OR: "bit.or", token.XOR: "bit.xor", token.AND_NOT: "bit.andnot"}[op]
	r := t.newConst("bit", "Int")
	t.emit("(assert (= " + r + " " + app(f, a, b) + "))")
	t.assume(ii.inRange(r))
	if !ii.signed {
		switch op {
		case token.AND:
			t.assume(and(app("<=", r, a), app("<=", r, b)))
		case token.OR:
			t.assume(and(app(">=", r, a), app(">=", r, b)))
		case token.AND_NOT:
			t.assume(app("<=", r, a))
		}
	}
	return r
}

// singleAssigned: the value of a local variable cell that is written exactly once (e.g. a parameter that
// lives in a heap cell only because a closure captures it, and that neither this function nor the closure
// ever assigns again). Loads of such a cell are the stored value: no heap reasoning needed.
func (t *FnTrans) singleAssigned(a *ssa.Alloc, at *ssa.UnOp) (ssa.Value, bool) {
	if c, ok := t.singleAssignCache[a]; ok {
		if c == nil {
			return nil, false
		}
		if !c.Block().Dominates(at.Block()) {
			return nil, false
		}
		if c.Block() == at.Block() {
			for _, in := range c.Block().Instrs {
				if in == ssa.Instruction(at) {
					return nil, false // load before the store
				}
				if in == ssa.Instruction(c) {
					break
				}
			}
		}
		return c.Val, true
	}
	if t.singleAssignCache == nil {
		t.singleAssignCache = map[*ssa.Alloc]*ssa.Store{}
	}
	t.singleAssignCache[a] = nil
	if a.Referrers() == nil {
		return nil, false
	}
	var st *ssa.Store
	for _, r := range *a.Referrers() {
		switch r := r.(type) {
		case *ssa.Store:
			if r.Addr != ssa.Value(a) || st != nil {
				return nil, false // stored as a value somewhere, or assigned twice
			}
			st = r
		case *ssa.UnOp:
			if r.Op != token.MUL {
				return nil, false
			}
		case *ssa.DebugRef:
		case *ssa.MakeClosure:
			fn, ok := r.Fn.(*ssa.Function)
			if !ok {
				return nil, false
			}
			for i, b := range r.Bindings {
				if b != ssa.Value(a) {
					continue
				}
				if i >= len(fn.FreeVars) || fn.FreeVars[i].Referrers() == nil {
					return nil, false
				}
				for _, fr := range *fn.FreeVars[i].Referrers() {
					switch fr := fr.(type) {
					case *ssa.UnOp:
						if fr.Op != token.MUL {
							return nil, false
						}
					case *ssa.DebugRef:
					default:
						return nil, false // the closure may write the variable or pass its address on
					}
				}
			}
		default:
			return nil, false
		}
	}
	if st == nil {
		return nil, false
	}
	// loops: a store inside a loop assigns the variable once per iteration
	for _, l := range t.loops {
		if l.body[st.Block()] {
			return nil, false
		}
	}
	t.singleAssignCache[a] = st
	return t.singleAssigned(a, at)
}

// stableFreeVar: the captured variable behind fv is a cell of the enclosing function that is stored to exactly once, in
// the block that allocates it (a spilled parameter or an initialised local: once per cell) and before the closure is
// created, whose address goes nowhere else, and which the closures sharing it only read.
func (t *FnTrans) stableFreeVar(fv *ssa.FreeVar) bool {
	if c, ok := t.stableFV[fv]; ok {
		return c
	}
	if t.stableFV == nil {
		t.stableFV = map[*ssa.FreeVar]bool{}
	}
	t.stableFV[fv] = false
	parent := t.fn.Parent()
	if parent == nil {
		return false
	}
	idx := -1
	for i, f := range t.fn.FreeVars {
		if f == fv {
			idx = i
		}
	}
	if idx < 0 {
		return false
	}
	onlyLoads := func(v ssa.Value) bool {
		if v.Referrers() == nil {
			return false
		}
		for _, r := range *v.Referrers() {
			switch r := r.(type) {
			case *ssa.UnOp:
				if r.Op != token.MUL {
					return false
				}
			case *ssa.DebugRef:
			default:
				return false
			}
		}
		return true
	}
	if !onlyLoads(fv) {
		return false
	}
	found := false
	for _, b := range parent.Blocks {
		for _, in := range b.Instrs {
			mc, ok := in.(*ssa.MakeClosure)
			if !ok || mc.Fn != ssa.Value(t.fn) || idx >= len(mc.Bindings) {
				continue
			}
			a, ok := mc.Bindings[idx].(*ssa.Alloc)
			if !ok || a.Referrers() == nil {
				return false
			}
			var st *ssa.Store
			for _, r := range *a.Referrers() {
				switch r := r.(type) {
				case *ssa.Store:
					if r.Addr != ssa.Value(a) || st != nil {
						return false
					}
					st = r
				case *ssa.UnOp:
					if r.Op != token.MUL {
						return false
					}
				case *ssa.DebugRef:
				case *ssa.MakeClosure:
					cf, ok := r.Fn.(*ssa.Function)
					if !ok {
						return false
					}
					for i, bv := range r.Bindings {
						if bv == ssa.Value(a) && (i >= len(cf.FreeVars) || !onlyLoads(cf.FreeVars[i])) {
							return false
						}
					}
				default:
					return false
				}
			}
			if st == nil || st.Block() != a.Block() {
				return false
			}
			// the store precedes the creation of the closure
			if st.Block() == mc.Block() {
				before := false
				for _, i2 := range st.Block().Instrs {
					if i2 == ssa.Instruction(st) {
						before = true
					}
					if i2 == ssa.Instruction(mc) {
						break
					}
				}
				if !before {
					return false
				}
			} else if !st.Block().Dominates(mc.Block()) {
				return false
			}
			found = true
		}
	}
	t.stableFV[fv] = found
	return found
}

func (t *FnTrans) unop(x *ssa.UnOp) {
	switch x.Op {
	case token.MUL: // load
		if al, ok := x.X.(*ssa.Alloc); ok {
			if sv, ok := t.singleAssigned(al, x); ok {
				if v, has := t.vals[sv]; has || isConst(sv) {
					_ = v
					t.vals[x] = t.val(sv)
					return
				}
			}
		}
		p := t.ptrOf(x.X)
		if p.Kind == "cell" || p.Kind == "obj" || p.Kind == "elemrow" {
			t.nilCheck(p.Ref, "load through nil pointer")
		}
		t.checkGuarded(p, false)
		// sentinel error globals are constants
		if g, ok := x.X.(*ssa.Global); ok && t.eng.isSentinelGlobal(g) {
			t.vals[x] = Val{S: t.sentinel(g.Pkg.Pkg.Path() + "." + g.Name())}
			return
		}
		T := t.resolve(x.Type())
		if _, isAlloc := x.X.(*ssa.Alloc); !isAlloc && containsLockByValue(T, 0) {
			// reading a whole struct that holds a lock by value copies the lock in whatever state it is in (what go vet's
			// copylocks pass reports): a copy made while someone holds the original is born locked
			t.oblige("lockcopy", "false", "copy of a value that contains a lock ("+T.String()+")")
		}
		if fvv, ok := x.X.(*ssa.FreeVar); ok && t.stableFreeVar(fvv) {
			// a captured variable that is assigned once, before the closure is created, and that the closure only
			// reads: every load during this activation yields the value the cell had at entry (no callee has its address)
			save := t.cur
			t.cur = t.entry
			ld := t.load(p)
			t.cur = save
			t.bind(x, ld)
		} else {
			t.bind(x, t.load(p))
		}
		t.assume(t.rangeFact(t.vals[x].S, T))
		if fv, ok := t.vals[x.X]; ok && fv.Fn != nil {
			v := t.vals[x]
			v.Fn = fv.Fn
			t.vals[x] = v
		}
		if ia, ok := x.X.(*ssa.IndexAddr); ok {
			if pr, ok := ia.X.(*ssa.Parameter); ok {
				if _, isSig := T.Underlying().(*types.Signature); isSig {
					v := t.vals[x]
					v.Nm = pr.Name() // element of a (variadic) parameter of function values: callback contract by the parameter's name
					t.vals[x] = v
				}
			}
		}
		if fvv, ok := x.X.(*ssa.FreeVar); ok {
			if _, isSig := T.Underlying().(*types.Signature); isSig {
				v := t.vals[x]
				v.Nm = fvv.Name() // captured function variable: callback contract by its name
				t.vals[x] = v
			}
		}
		if fa, ok := x.X.(*ssa.FieldAddr); ok {
			if _, isSig := T.Underlying().(*types.Signature); isSig {
				// function-typed field: remember which, for type-level callback contracts
				if pt, ok := t.resolve(fa.X.Type()).Underlying().(*types.Pointer); ok {
					if st, ok := t.resolve(pt.Elem()).Underlying().(*types.Struct); ok {
						v := t.vals[x]
						v.Nm = "field:" + typeName(originOf(t.resolve(pt.Elem()))) + "." + st.Field(fa.Field).Name()
						t.vals[x] = v
					}
				}
			}
		}
	case token.NOT:
		t.bind(x, not(t.term(x.X)))
	case token.SUB:
		T := t.resolve(x.X.Type())
		if ii, ok := intInfoOf(T); ok {
			t.bind(x, ii.wrap1(app("-", t.term(x.X))))
		} else {
			t.abstr["float"] = true
			t.bind(x, app("fneg", t.term(x.X)))
		}
	case token.XOR:
		ii, _ := intInfoOf(t.resolve(x.X.Type()))
		if ii.signed {
			t.bind(x, app("-", app("-", t.term(x.X)), "1"))
		} else {
			t.bind(x, app("-", num(ii.max()), t.term(x.X)))
		}
	case token.ARROW:
		t.recv(x)
	default:
		t.fail("unsupported unary operator %s", x.Op)
	}
}

func (t *FnTrans) convert(x *ssa.Convert) {
	from, to := t.resolve(x.X.Type()), t.resolve(x.Type())
	fi, fok := intInfoOf(from)
	ti, tok := intInfoOf(to)
	a := t.term(x.X)
	switch {
	case fok && tok:
		if ti.bits > fi.bits && (fi.signed == ti.signed || !fi.signed) || ti == fi {
			t.bind(x, a)
		} else {
			t.bind(x, ti.wrap(a))
		}
	case t.sortOf(from) == "Float" && t.sortOf(to) == "Float":
		t.bind(x, a)
	case fok && t.sortOf(to) == "Float":
		t.abstr["float"] = true
		t.bind(x, app("int2float", a))
	case t.sortOf(from) == "Float" && tok:
		t.abstr["float"] = true
		t.havocVal(x)
	case t.sortOf(from) == "Slice" && t.sortOf(to) == "Str" && isByteSlice(from):
		// string(bytes): content function of the elements
		t.bind(x, t.bytesToStr(a))
	case t.sortOf(from) == "Slice" && t.sortOf(to) == "Str":
		// string(runes): UTF-8 encoding, not modelled
		t.abstr["runes-to-string"] = true
		t.havocVal(x)
	case t.sortOf(from) == "Str" && t.sortOf(to) == "Slice" && isByteSlice(to):
		t.strToBytes(x, a)
	case t.sortOf(from) == "Str" && t.sortOf(to) == "Slice":
		// []rune(s): one element per code point - a new slice of at most len(s) and at least len(s)/4 elements
		// (UTF-8 decoding itself is not modelled)
		t.abstr["string-to-runes"] = true
		r := t.allocRef()
		n := t.newConst("runes", "Int")
		t.assume(and(app("<=", n, app("slen", a)), app(">=", app("*", "4", n), app("slen", a)), app(">=", n, "0")))
		t.bind(x, app("mk-slice", r, "0", n, n))
	case t.sortOf(from) == t.sortOf(to):
		t.vals[x] = t.val(x.X)
	case fok && t.sortOf(to) == "Str":
		t.abstr["rune-to-string"] = true
		t.havocVal(x)
	default:
		t.fail("unsupported conversion %s -> %s", from, to)
	}
}

func (t *FnTrans) indexAddr(x *ssa.IndexAddr) {
	XT := t.resolve(x.X.Type())
	idx := t.term(x.Index)
	switch u := XT.Underlying().(type) {
	case *types.Slice:
		s := t.term(x.X)
		t.oblige("idx", and(app("<=", "0", idx), app("<", idx, app("s.len", s))), "index out of range")
		es := t.sortOf(u.Elem())
		t.vals[x] = Val{P: &Ptr{Kind: "elem", Comp: "E." + mangle(es), Ref: app("s.base", s), Idx: app("+", app("s.off", s), idx), T: u.Elem()}}
	case *types.Pointer:
		at := t.resolve(u.Elem()).Underlying().(*types.Array)
		t.oblige("idx", and(app("<=", "0", idx), app("<", idx, fmt.Sprint(at.Len()))), "index out of range")
		in := t.ptrOf(x.X)
		if in.Kind == "elemrow" {
			t.nilCheck(in.Ref, "index of nil array pointer")
			t.vals[x] = Val{P: &Ptr{Kind: "elem", Comp: in.Comp, Ref: in.Ref, Idx: idx, T: at.Elem()}}
		} else {
			t.vals[x] = Val{P: &Ptr{Kind: "arrelem", In: in, Idx: idx, T: at.Elem()}}
		}
	default:
		t.fail("IndexAddr on %s", XT)
	}
}

func (t *FnTrans) index(x *ssa.Index) {
	XT := t.resolve(x.X.Type())
	idx := t.term(x.Index)
	switch u := XT.Underlying().(type) {
	case *types.Array:
		t.oblige("idx", and(app("<=", "0", idx), app("<", idx, fmt.Sprint(u.Len()))), "index out of range")
		t.bind(x, app("select", t.term(x.X), idx))
	case *types.Basic: // string
		s := t.term(x.X)
		t.oblige("idx", and(app("<=", "0", idx), app("<", idx, app("slen", s))), "string index out of range")
		t.bind(x, app("sidx", s, idx))
		t.assume(intInfo{8, false}.inRange(t.vals[x].S))
	default:
		t.fail("Index on %s", XT)
	}
}

func (t *FnTrans) sliceOp(x *ssa.Slice) {
	XT := t.resolve(x.X.Type())
	var lo, hi, mx string
	if x.Low != nil {
		lo = t.term(x.Low)
	} else {
		lo = "0"
	}
	switch u := XT.Underlying().(type) {
	case *types.Slice:
		s := t.term(x.X)
		if x.High != nil {
			hi = t.term(x.High)
		} else {
			hi = app("s.len", s)
		}
		capS := app("s.cap", s)
		if x.Max != nil {
			mx = t.term(x.Max)
		} else {
			mx = capS
		}
		t.oblige("slice", and(app("<=", "0", lo), app("<=", lo, hi), app("<=", hi, mx), app("<=", mx, capS)), "slice bounds out of range")
		t.bind(x, app("mk-slice", app("s.base", s), app("+", app("s.off", s), lo), app("-", hi, lo), app("-", mx, lo)))
	case *types.Basic: // string
		s := t.term(x.X)
		if x.High != nil {
			hi = t.term(x.High)
		} else {
			hi = app("slen", s)
		}
		t.oblige("slice", and(app("<=", "0", lo), app("<=", lo, hi), app("<=", hi, app("slen", s))), "string slice bounds out of range")
		r := app("ssub", s, lo, hi)
		t.bind(x, r)
		t.assume(eq(app("slen", t.vals[x].S), app("-", hi, lo)))
	case *types.Pointer: // *[N]T
		at := t.resolve(u.Elem()).Underlying().(*types.Array)
		n := fmt.Sprint(at.Len())
		if x.High != nil {
			hi = t.term(x.High)
		} else {
			hi = n
		}
		if x.Max != nil {
			mx = t.term(x.Max)
		} else {
			mx = n
		}
		t.oblige("slice", and(app("<=", "0", lo), app("<=", lo, hi), app("<=", hi, mx), app("<=", mx, n)), "slice bounds out of range")
		// the array lives in a cell (or field); give it an element-heap identity: copy-in.
		// Arrays that are sliced are modelled as element-heap rows keyed by the array's address.
		p := t.ptrOf(x.X)
		es := t.sortOf(at.Elem())
		ec := t.comp("E."+mangle(es), "(Array Int (Array Int "+es+"))")
		if p.Kind == "elemrow" {
			t.bind(x, app("mk-slice", p.Ref, lo, app("-", hi, lo), app("-", mx, lo)))
			return
		}
		base := t.arrayBase(p)
		// synchronise: the row of the element heap holds the array's current content
		t.set(ec, app("store", t.get(ec), base, t.load(p)))
		t.slicedArrays = append(t.slicedArrays, slicedArr{p: p, base: base, comp: ec})
		t.bind(x, app("mk-slice", base, lo, app("-", hi, lo), app("-", mx, lo)))
	default:
		t.fail("Slice on %s", XT)
	}
}

type slicedArr struct {
	p    *Ptr
	base string
	comp string
}

// arrayBase: an element-heap row id for an array stored at p. For cells the cell's own ref is
// used (refs are unique across kinds); for fields an injective function of the owner.
func (t *FnTrans) arrayBase(p *Ptr) string {
	switch p.Kind {
	case "cell":
		return p.Ref
	case "field":
		f := q("addr$" + p.Comp)
		t.declareFun(f, []string{"Int"}, "Int")
		t.abstr["array-field-slice:"+p.Comp] = true
		r := app(f, p.Ref)
		t.assume(app("<", r, "0")) // disjoint from allocated refs
		return r
	}
	t.fail("slicing an array at pointer kind %s", p.Kind)
	return ""
}

func (t *FnTrans) makeSlice(x *ssa.MakeSlice) {
	ln, cp := t.term(x.Len), t.term(x.Cap)
	t.oblige("make", and(app("<=", "0", ln), app("<=", ln, cp)), "makeslice: len out of range")
	t.allocCheck(x, ln)
	u := t.resolve(x.Type()).Underlying().(*types.Slice)
	es := t.sortOf(u.Elem())
	ec := t.comp("E."+mangle(es), "(Array Int (Array Int "+es+"))")
	r := t.allocRef()
	t.set(ec, app("store", t.get(ec), r, fmt.Sprintf("((as const (Array Int %s)) %s)", es, t.zero(u.Elem()))))
	t.bind(x, app("mk-slice", r, "0", ln, cp))
}

func (t *FnTrans) makeInterface(x *ssa.MakeInterface) {
	T := t.resolve(x.X.Type())
	v := t.val(x.X)
	if t.sortOf(T) == "Tuple" {
		t.fail("MakeInterface of tuple")
	}
	// interface values are canonical encodings of (dynamic type, value): box$T is injective, so two
	// interface values are equal exactly when their dynamic types and values are (Go's == on interfaces)
	term := ""
	if v.S != "" || v.P != nil {
		term = t.termOf(v, x.X)
	} else {
		term = t.zero(T)
	}
	n := q(x.Name())
	t.define(n, "Int", t.box(term, T))
	t.vals[x] = Val{S: n, Fn: v.Fn, Bnd: v.Bnd, Box: term, BoxSort: t.sortOf(T)}
}

// box: the interface value holding `term` of static type T.
func (t *FnTrans) box(term string, T types.Type) string {
	T = t.resolve(T)
	id := t.typeID(T)
	srt := t.sortOf(T)
	f := q("box$" + id)
	if !t.declared[f] {
		t.declareFun(f, []string{srt}, "Int")
		ub := q("unbox$" + mangle(srt))
		t.declareFun(ub, []string{"Int"}, srt)
		t.emit(fmt.Sprintf("(assert (forall ((bx %s)) (! (and (= (dyn.type (%s bx)) %s) (= (%s (%s bx)) bx) (not (= (%s bx) 0))) :pattern ((%s bx)))))", srt, f, id, ub, f, f, f))
	}
	return app(f, term)
}

func (t *FnTrans) unbox(ref string, T types.Type) string {
	s := t.sortOf(T)
	f := q("unbox$" + mangle(s))
	t.declareFun(f, []string{"Int"}, s)
	// canonicity: an interface value with dynamic type T is the box of its payload (so that two
	// interface values of that type are equal exactly when the payloads are: Go's == on interfaces)
	if !strings.Contains(ref, "bv$") && !strings.Contains(ref, "tf$") {
		R := t.resolve(T)
		if types.Comparable(R) {
			bx := t.box(app(f, ref), R)
			key := "canon:" + bx
			if !t.declared[key] {
				t.declared[key] = true
				t.emit("(assert " + implies(and(not(eq(ref, "0")), eq(app("dyn.type", ref), t.typeID(R))), eq(bx, ref)) + ")")
			}
		}
	}
	return app(f, ref)
}

func (t *FnTrans) typeAssert(x *ssa.TypeAssert) {
	v := t.term(x.X)
	AT := t.resolve(x.AssertedType)
	var okc string
	if _, isIface := AT.Underlying().(*types.Interface); isIface {
		// interface-to-interface: succeeds iff non-nil and implements; implementation is not modelled
		okv := t.newConst("implements", "Bool")
		okc = and(not(eq(v, "0")), okv)
		t.abstr["iface-to-iface-assert"] = true
		if !x.CommaOk {
			t.oblige("assert", okc, "interface conversion may panic")
			t.bind(x, v)
			return
		}
		r := t.newConst(x.Name()+".v", "Int")
		t.emit("(assert (= " + r + " " + ite(okc, v, "0") + "))")
		okn := t.newConst(x.Name()+".ok", "Bool")
		t.emit("(assert (= " + okn + " " + okc + "))")
		t.vals[x] = Val{Tup: []Val{{S: r}, {S: okn}}}
		return
	}
	okc = and(not(eq(v, "0")), eq(app("dyn.type", v), t.typeID(AT)))
	val := t.unbox(v, AT)
	if !x.CommaOk {
		if t.ct != nil && t.ct.Opts["assume-type-asserts"] != "" {
			// the dynamic types of values coming out of untyped containers (container/heap) are assumed, not proved
			t.assume(okc)
			t.abstr["assumed (unchecked): type assertion to "+AT.String()+" succeeds"] = true
		} else {
			t.oblige("assert", okc, "type assertion may panic")
		}
		t.bind(x, val)
		t.assume(t.rangeFact(t.vals[x].S, AT))
		return
	}
	r := t.newConst(x.Name()+".v", t.sortOf(AT))
	t.emit("(assert (= " + r + " " + ite(okc, val, t.zero(AT)) + "))")
	t.assume(t.rangeFact(r, AT))
	okn := t.newConst(x.Name()+".ok", "Bool")
	t.emit("(assert (= " + okn + " " + okc + "))")
	t.vals[x] = Val{Tup: []Val{{S: r}, {S: okn}}}
}

func (t *FnTrans) panicInstr(x *ssa.Panic) {
	if t.ct != nil && t.ct.Opts["panic-unchanged"] != "" {
		// "panics instead of corrupting state": when the function panics, every location that existed at entry still
		// holds its entry value (lock state aside: deferred unlocks run while the panic unwinds)
		t.panicCount++
		comps := make([]string, 0, len(t.cur.H))
		for c := range t.cur.H {
			comps = append(comps, c)
		}
		sort.Strings(comps)
		a0 := q("$alloc@0")
		for _, c := range comps {
			if c == "$alloc" || strings.HasPrefix(c, "L.") {
				continue
			}
			now := t.cur.H[c]
			was, ok := t.entry.H[c]
			if !ok || now == was {
				continue
			}
			sc := t.compSort[c]
			goal := eq(now, was)
			if strings.HasPrefix(sc, "(Array Int ") {
				goal = fmt.Sprintf("(forall ((fr$r Int)) %s)", implies(app("<", "fr$r", a0), eq(app("select", now, "fr$r"), app("select", was, "fr$r"))))
			}
			t.obligeNamed(fmt.Sprintf("panic.unchanged.%d.%s", t.panicCount, c), "frame", goal, "the function panics with component "+c+" unchanged (opt panic-unchanged)")
		}
	}
	if t.ct != nil && t.ct.PanicsWhen != nil {
		env := t.selfEnv(t.cur, t.entry)
		t.oblige("panic", env.evalBool(t.ct.PanicsWhen.E), "panic only in a state satisfying the declared condition: "+t.ct.PanicsWhen.Text)
		return
	}
	if t.ct != nil && t.ct.PanicsIf != nil {
		env := t.selfEnv(t.entry, t.entry)
		t.oblige("panic", env.evalBool(t.ct.PanicsIf.E), "panic only under the declared condition")
		return
	}
	t.oblige("unreachable", "false", "explicit panic must be unreachable")
}

// retOperand: the value of a return operand. go/ssa evaluates the operands of `return v, f(&v)` left to
// right, i.e. it loads v before the call; the Go specification leaves the order of a variable read and a
// function call in the same statement unspecified, and the gc compiler (the code that runs) performs the
// calls first and reads plain variable operands afterwards. For a return operand that is a load of a local
// variable with a call between the load and the return in the same block, the value at the return is used.
func (t *FnTrans) retOperand(x *ssa.Return, r ssa.Value) string {
	u, ok := r.(*ssa.UnOp)
	if !ok || u.Op != token.MUL || u.Block() != x.Block() {
		return t.term(r)
	}
	al, ok := u.X.(*ssa.Alloc)
	if !ok || realReferrers(u) != 1 {
		return t.term(r)
	}
	after, call := false, false
	for _, in := range x.Block().Instrs {
		if in == ssa.Instruction(u) {
			after = true
			continue
		}
		if !after {
			continue
		}
		switch in.(type) {
		case *ssa.Call:
			call = true
		case *ssa.RunDefers:
			return t.term(r)
		}
	}
	if !call {
		return t.term(r)
	}
	t.abstr["gc evaluation order: a local variable operand of a return is read after the calls of the same statement"] = true
	return t.load(t.ptrOf(al))
}

// isReturnSelfStore: `return v, f(&v)` with named results is compiled by go/ssa into t1 = *v; call;
// *v = t1, i.e. the variable is overwritten with the value it had before the call. Under the gc
// compiler's order (calls first, then plain variable operands) the statement assigns v to itself.
func (t *FnTrans) isReturnSelfStore(x *ssa.Store) bool {
	u, ok := x.Val.(*ssa.UnOp)
	if !ok || u.Op != token.MUL || u.X != x.Addr || u.Block() != x.Block() {
		return false
	}
	if _, ok := u.X.(*ssa.Alloc); !ok {
		return false
	}
	if realReferrers(u) != 1 {
		return false
	}
	after, call := false, false
	for _, in := range x.Block().Instrs {
		if in == ssa.Instruction(u) {
			after = true
			continue
		}
		if in == ssa.Instruction(x) {
			break
		}
		if after {
			if _, ok := in.(*ssa.Call); ok {
				call = true
			}
		}
	}
	if call {
		t.abstr["gc evaluation order: a local variable operand of a return is read after the calls of the same statement"] = true
	}
	return call
}

func isConst(v ssa.Value) bool { _, ok := v.(*ssa.Const); return ok }

// realReferrers counts the instructions using v, ignoring debug references.
func realReferrers(v ssa.Value) int {
	if v.Referrers() == nil {
		return 0
	}
	n := 0
	for _, r := range *v.Referrers() {
		if _, dbg := r.(*ssa.DebugRef); !dbg {
			n++
		}
	}
	return n
}

func (t *FnTrans) ret(x *ssa.Return) {
	t.retCount++
	var res []SVal
	for i, r := range x.Results {
		res = append(res, SVal{S: t.retOperand(x, r), T: t.resTypes[i], Sort: t.sortOf(t.resTypes[i])})
	}
	if !t.ghostDone[x] {
		t.runReturnGhosts(x)
	}
	t.checkGlobalInv("return")
	if t.ct == nil {
		return
	}
	env := t.retEnv(res)
	if t.ct.PanicsIf != nil {
		e0 := t.selfEnv(t.entry, t.entry)
		t.oblige("nopanic", not(e0.evalBool(t.ct.PanicsIf.E)), "returns normally only when the panic condition is false")
	}
	t.debtsExit()
	for i, c := range t.ct.Ensures {
		goal := env.evalBool(c.E)
		name := fmt.Sprintf("post.%d", i+1) + t.retSuffix()
		if sp, ok := t.ct.Opts["split"]; ok {
			// proof hint: case split on an integer expression; the cases are exhaustive by construction
			// (lo..hi one by one, plus "outside lo..hi"), so the conjunction of the cases is the obligation
			var ex string
			var lo, hi int
			if n, _ := fmt.Sscanf(sp, "%s %d %d", &ex, &lo, &hi); n == 3 {
				pe, err := ParseExpr(ex)
				if err != nil {
					t.fail("opt split: %v", err)
				}
				v := t.selfEnv(t.entry, t.entry).evalInt(pe)
				saveG := t.guard
				for k := lo; k <= hi; k++ {
					t.guard = and(saveG, eq(v, fmt.Sprint(k)))
					o := &Obligation{Name: t.oblPrefix() + "::" + name + fmt.Sprintf("/case%d", k), Kind: "post", NLines: len(t.lines), Guard: t.guard, Goal: goal, Expect: "unsat", Fn: t.oblPrefix(), Note: c.Text + fmt.Sprintf("   [case %s == %d]", ex, k), Pos: t.eng.prog.Fset.Position(x.Pos())}
					t.obls = append(t.obls, o)
				}
				t.guard = and(saveG, or(app("<", v, fmt.Sprint(lo)), app(">", v, fmt.Sprint(hi))))
				o := &Obligation{Name: t.oblPrefix() + "::" + name + "/rest", Kind: "post", NLines: len(t.lines), Guard: t.guard, Goal: goal, Expect: "unsat", Fn: t.oblPrefix(), Note: c.Text + fmt.Sprintf("   [case %s outside %d..%d]", ex, lo, hi), Pos: t.eng.prog.Fset.Position(x.Pos())}
				t.obls = append(t.obls, o)
				t.guard = saveG
				t.assume(goal)
				continue
			}
			t.fail("opt split: expected '<expr> <lo> <hi>'")
		}
		t.obligeNamed(name, "post", goal, c.Text)
	}
	t.frameCheck()
}

func (t *FnTrans) runReturnGhosts(x *ssa.Return) {
	t.ghostDone[x] = true
	var res []SVal
	for i, r := range x.Results {
		if e, ok := t.earlyRes[r]; ok {
			res = append(res, SVal{S: e, T: t.resTypes[i], Sort: t.sortOf(t.resTypes[i])})
			continue
		}
		res = append(res, SVal{S: t.term(r), T: t.resTypes[i], Sort: t.sortOf(t.resTypes[i])})
	}
	for _, g := range t.ghostAtReturn {
		renv := t.retEnv(res)
		if renv.local == nil {
			renv.local = func(name string) (SVal, bool) { return t.localHere(name) }
		}
		t.ghostUpdate(g, renv)
	}
}

func (t *FnTrans) onlyLockDefers() bool {
	for _, d := range t.defers {
		f, ok := d.call.Call.Value.(*ssa.Function)
		if !ok {
			return false
		}
		if _, ok := intrinsicKeys[fnKey(f)]; !ok {
			return false
		}
	}
	return true
}

// checkGlobalInv: the package's global invariants (crash invariants) hold here.
func (t *FnTrans) checkGlobalInv(where string) {
	for i, gi := range t.eng.specs.GInv[t.fn.Pkg.Pkg.Path()] {
		env := t.selfEnv(t.cur, t.entry)
		t.oblige(fmt.Sprintf("ginv.%d", i+1), env.evalBool(gi.E), "global invariant after "+where+": "+gi.Text)
	}
}

func (t *FnTrans) retSuffix() string {
	if t.retCount <= 1 {
		return ""
	}
	return fmt.Sprintf("@ret%d", t.retCount)
}

func (t *FnTrans) retEnv(res []SVal) *Env {
	env := t.selfEnv(t.cur, t.entry)
	for i, r := range res {
		env.vars[fmt.Sprintf("r%d", i)] = r
		if t.resNames[i] != "" && t.resNames[i] != "_" {
			if _, clash := env.vars[t.resNames[i]]; !clash {
				env.vars[t.resNames[i]] = r
			}
		}
	}
	if len(res) == 1 {
		env.vars["result"] = res[0]
	}
	return env
}

// convStruct: a struct value of type From as a value of type To (same underlying struct, different named types have
// different SMT datatypes): rebuilt field by field. ok is false when no conversion is needed or possible.
func (t *FnTrans) convStruct(term string, From, To types.Type) (string, bool) {
	From, To = t.resolve(From), t.resolve(To)
	fs, ok1 := From.Underlying().(*types.Struct)
	ts, ok2 := To.Underlying().(*types.Struct)
	if !ok1 || !ok2 || fs.NumFields() != ts.NumFields() {
		return "", false
	}
	sf, st := t.structSort(From, fs), t.structSort(To, ts)
	if sf == st {
		return "", false
	}
	if ts.NumFields() == 0 {
		return "mk_" + st, true
	}
	var args []string
	for i := 0; i < ts.NumFields(); i++ {
		a := app(q(sf+"."+fieldAcc(fs, i)), term)
		if c, ok := t.convStruct(a, fs.Field(i).Type(), ts.Field(i).Type()); ok {
			a = c
		}
		args = append(args, a)
	}
	return app("mk_"+st, args...), true
}

func isByteSlice(T types.Type) bool {
	sl, ok := T.Underlying().(*types.Slice)
	if !ok {
		return false
	}
	b, ok := sl.Elem().Underlying().(*types.Basic)
	return ok && (b.Kind() == types.Uint8 || b.Kind() == types.Byte)
}

// containsLockByValue: T is, or holds by value, a type with pointer-receiver Lock and Unlock methods.
func containsLockByValue(T types.Type, depth int) bool {
	if depth > 4 {
		return false
	}
	if _, isPtr := T.Underlying().(*types.Pointer); isPtr {
		return false
	}
	if _, isIface := T.Underlying().(*types.Interface); isIface {
		return false
	}
	if _, isTP := T.(*types.TypeParam); isTP {
		return false
	}
	ms := types.NewMethodSet(types.NewPointer(T))
	own := types.NewMethodSet(T)
	if ms.Lookup(nil, "Lock") != nil && ms.Lookup(nil, "Unlock") != nil && own.Lookup(nil, "Lock") == nil {
		return true
	}
	switch u := T.Underlying().(type) {
	case *types.Struct:
		for i := 0; i < u.NumFields(); i++ {
			if containsLockByValue(u.Field(i).Type(), depth+1) {
				return true
			}
		}
	case *types.Array:
		return containsLockByValue(u.Elem(), depth+1)
	}
	return false
}
