package main

import (
	"fmt"
	"go/token"
	"go/types"
	"os"
	"sort"
	"strings"

	"golang.org/x/tools/go/ssa"
)

// ---------- maps ----------

func (t *FnTrans) mapComps(mt *types.Map) (dom, val, ln string) {
	ks, vs := t.sortOf(mt.Key()), t.sortOf(mt.Elem())
	base := "M." + mangle(ks) + "." + mangle(vs)
	dom = t.comp(base+".dom", "(Array Int (Array "+ks+" Bool))")
	if _, has := t.compT[base+".val"]; !has {
		t.compT[base+".val"] = t.resolve(mt.Elem())
	}
	val = t.comp(base+".val", "(Array Int (Array "+ks+" "+vs+"))")
	ln = t.comp(base+".len", "(Array Int Int)")
	return
}

func (t *FnTrans) makeMap(x *ssa.MakeMap) {
	mt := t.resolve(x.Type()).Underlying().(*types.Map)
	dc, vc, lc := t.mapComps(mt)
	r := t.allocRef()
	ks := t.sortOf(mt.Key())
	t.set(dc, app("store", t.get(dc), r, fmt.Sprintf("((as const (Array %s Bool)) false)", ks)))
	t.set(vc, app("store", t.get(vc), r, fmt.Sprintf("((as const (Array %s %s)) %s)", ks, t.sortOf(mt.Elem()), t.zero(mt.Elem()))))
	t.set(lc, app("store", t.get(lc), r, "0"))
	t.bind(x, r)
}

func (t *FnTrans) lookup(x *ssa.Lookup) {
	XT := t.resolve(x.X.Type())
	mt, ok := XT.Underlying().(*types.Map)
	if !ok {
		// string index
		s, idx := t.term(x.X), t.term(x.Index)
		t.oblige("idx", and(app("<=", "0", idx), app("<", idx, app("slen", s))), "string index out of range")
		t.bind(x, app("sidx", s, idx))
		return
	}
	dc, vc, _ := t.mapComps(mt)
	t.checkGuardedMap(x.X, false)
	m, k := t.term(x.X), t.term(x.Index)
	has := and(not(eq(m, "0")), app("select", app("select", t.get(dc), m), k))
	v := ite(has, app("select", app("select", t.get(vc), m), k), t.zero(mt.Elem()))
	if x.CommaOk {
		vn := t.newConst(x.Name()+".v", t.sortOf(mt.Elem()))
		t.emit("(assert (= " + vn + " " + v + "))")
		t.assume(t.rangeFact(vn, mt.Elem()))
		on := t.newConst(x.Name()+".ok", "Bool")
		t.emit("(assert (= " + on + " " + has + "))")
		t.vals[x] = Val{Tup: []Val{{S: vn}, {S: on}}}
		return
	}
	t.bind(x, v)
	t.assume(t.rangeFact(t.vals[x].S, mt.Elem()))
}

func (t *FnTrans) mapUpdate(x *ssa.MapUpdate) {
	mt := t.resolve(x.Map.Type()).Underlying().(*types.Map)
	dc, vc, lc := t.mapComps(mt)
	t.checkGuardedMap(x.Map, true)
	m, k, v := t.term(x.Map), t.term(x.Key), t.term(x.Value)
	t.oblige("nilmap", not(eq(m, "0")), "assignment to entry in nil map")
	d := t.get(dc)
	had := app("select", app("select", d, m), k)
	l := t.get(lc)
	t.set(lc, app("store", l, m, ite(had, app("select", l, m), app("+", app("select", l, m), "1"))))
	t.set(dc, app("store", d, m, app("store", app("select", d, m), k, "true")))
	vv := t.get(vc)
	t.set(vc, app("store", vv, m, app("store", app("select", vv, m), k, v)))
}

func (t *FnTrans) mapDelete(c *ssa.CallCommon) {
	mt := t.resolve(c.Args[0].Type()).Underlying().(*types.Map)
	dc, _, lc := t.mapComps(mt)
	t.checkGuardedMap(c.Args[0], true)
	m, k := t.term(c.Args[0]), t.term(c.Args[1])
	d := t.get(dc)
	had := and(not(eq(m, "0")), app("select", app("select", d, m), k))
	l := t.get(lc)
	t.set(lc, app("store", l, m, ite(had, app("-", app("select", l, m), "1"), app("select", l, m))))
	t.set(dc, ite(eq(m, "0"), d, app("store", d, m, app("store", app("select", d, m), k, "false"))))
}

// range over map / string: Go-spec iteration contract with a ghost visited set.
type rangeState struct {
	mt      *types.Map
	m       string
	visited string // component name of the ghost visited set
	count   string // component name of the ghost number of keys produced so far
	isStr   bool
	str     string
	pos     string // component for string position
}

func (t *FnTrans) rangeInit(x *ssa.Range) {
	XT := t.resolve(x.X.Type())
	rs := &rangeState{}
	if mt, ok := XT.Underlying().(*types.Map); ok {
		rs.mt = mt
		rs.m = t.term(x.X)
		ks := t.sortOf(mt.Key())
		rs.visited = t.rangeComp(x, nil)
		t.set(rs.visited, fmt.Sprintf("((as const (Array %s Bool)) false)", ks))
		rs.count = t.comp("R."+x.Name()+".count", "Int")
		t.set(rs.count, "0")
	} else {
		rs.isStr = true
		rs.str = t.term(x.X)
		rs.pos = t.rangeComp(x, nil)
		t.set(rs.pos, "0")
	}
	t.ranges[x] = rs
	t.vals[x] = Val{S: "0"}
}

func (t *FnTrans) rangeNext(x *ssa.Next) {
	rs := t.ranges[x.Iter.(*ssa.Range)]
	if rs == nil {
		t.fail("Next on unknown range")
	}
	okn := t.newConst(x.Name()+".ok", "Bool")
	if rs.isStr {
		pos := t.get(rs.pos)
		t.assume(eq(okn, app("<", pos, app("slen", rs.str))))
		k := t.newConst(x.Name()+".k", "Int")
		t.emit("(assert (= " + k + " " + pos + "))")
		v := t.newConst(x.Name()+".v", "Int")
		t.assume(and(app("<=", "0", v), app("<=", v, "1114111")))
		adv := t.newConst("runelen", "Int")
		t.assume(and(app("<=", "1", adv), app("<=", adv, "4")))
		t.set(rs.pos, ite(okn, app("+", pos, adv), pos))
		t.abstr["range-string-runes"] = true
		t.vals[x] = Val{Tup: []Val{{S: okn}, {S: k}, {S: v}}}
		return
	}
	dc, vc, _ := t.mapComps(rs.mt)
	t.checkGuardedMap(x.Iter.(*ssa.Range).X, false)
	vis := t.get(rs.visited)
	dom := app("select", t.get(dc), rs.m)
	k := t.newConst(x.Name()+".k", t.sortOf(rs.mt.Key()))
	v := t.newConst(x.Name()+".v", t.sortOf(rs.mt.Elem()))
	ks := t.sortOf(rs.mt.Key())
	// ok  => k in dom, not visited, v = m[k]
	t.assume(implies(okn, and(not(eq(rs.m, "0")), app("select", dom, k), not(app("select", vis, k)), eq(v, app("select", app("select", t.get(vc), rs.m), k)))))
	// !ok => every key in dom has been visited
	t.assume(implies(not(okn), or(eq(rs.m, "0"), fmt.Sprintf("(forall ((rk %s)) (! (=> (select %s rk) (select %s rk)) :pattern ((select %s rk))))", ks, dom, vis, dom))))
	t.assume(t.rangeFact(k, rs.mt.Key()))
	t.assume(t.rangeFact(v, rs.mt.Elem()))
	t.set(rs.visited, ite(okn, app("store", vis, k, "true"), vis))
	// the number of keys produced so far (spec: visitedcount): the keys are distinct members of the map, so while the
	// loop cannot change any map of this type their number stays below the size of the map
	cnt := t.get(rs.count)
	t.assume(app("<=", "0", cnt))
	for _, l := range t.curLoops {
		if l.head == x.Block() && !l.all && !l.writes[dc] {
			_, _, lc := t.mapComps(rs.mt)
			ln := app("select", t.get(lc), rs.m)
			t.assume(implies(and(okn, not(eq(rs.m, "0"))), app("<", cnt, ln)))
			t.assume(implies(and(not(okn), not(eq(rs.m, "0"))), eq(cnt, ln)))
		}
	}
	t.set(rs.count, ite(okn, app("+", cnt, "1"), cnt))
	t.vals[x] = Val{Tup: []Val{{S: okn}, {S: k}, {S: v}}}
}

// ---------- strings <-> bytes ----------

func (t *FnTrans) bytesToStr(s string) string {
	ec := t.comp("E.Int", "(Array Int (Array Int Int))")
	r := app("bytes2str", app("select", t.get(ec), app("s.base", s)), app("s.off", s), app("s.len", s))
	t.useBytes = true
	return r
}

func (t *FnTrans) strToBytes(x *ssa.Convert, s string) {
	ec := t.comp("E.Int", "(Array Int (Array Int Int))")
	r := t.allocRef()
	arr := t.newConst("strbytes", "(Array Int Int)")
	t.assume(fmt.Sprintf("(forall ((si Int)) (! (=> (and (<= 0 si) (< si (slen %s))) (= (select %s si) (sidx %s si))) :pattern ((select %s si))))", s, arr, s, arr))
	t.set(ec, app("store", t.get(ec), r, arr))
	t.bind(x, app("mk-slice", r, "0", app("slen", s), app("slen", s)))
	t.assume(eq(t.bytesToStr(t.vals[x].S), s))
}

// ---------- channels, goroutines ----------

func (t *FnTrans) recv(x *ssa.UnOp) {
	t.abstr["chan-recv"] = true
	t.ghostAt("before recv") // ghost statements attached to plain (blocking) channel receives of this function
	T := t.resolve(x.Type())
	if tup, ok := T.(*types.Tuple); ok {
		_ = tup
		t.havocVal(x)
		return
	}
	t.havocVal(x)
}

func (t *FnTrans) closeChan(c *ssa.CallCommon) {
	ch := t.term(c.Args[0])
	cc := t.comp("CH.closed", "(Array Int Bool)")
	t.oblige("close", and(not(eq(ch, "0")), not(app("select", t.get(cc), ch))), "close of nil or closed channel")
	t.set(cc, app("store", t.get(cc), ch, "true"))
}

func (t *FnTrans) selectInstr(x *ssa.Select) {
	t.abstr["select"] = true
	t.ghostAt("before select") // ghost statements attached to the select statements of this function
	t.havocVal(x)
	// index result is within range
	tv := t.vals[x]
	if len(tv.Tup) > 0 {
		lo := "0"
		if !x.Blocking {
			lo = "(- 1)"
		}
		t.assume(and(app("<=", lo, tv.Tup[0].S), app("<", tv.Tup[0].S, fmt.Sprint(len(x.States)))))
		// channels declared "closeonly" (type spec) are never sent on: a receive from one is ready iff it is closed
		cc := ""
		var readyClosed []string
		for i, st := range x.States {
			if st.Dir != types.RecvOnly || !t.closeOnlyChan(st.Chan) {
				continue
			}
			if cc == "" {
				cc = t.comp("CH.closed", "(Array Int Bool)")
			}
			cl := app("select", t.get(cc), t.term(st.Chan))
			t.assume(implies(eq(tv.Tup[0].S, fmt.Sprint(i)), cl))
			readyClosed = append(readyClosed, cl)
		}
		if !x.Blocking {
			for _, cl := range readyClosed {
				t.assume(implies(eq(tv.Tup[0].S, "(- 1)"), not(cl))) // default is taken only when no case is ready
			}
		}
		// "ghost after select [#n]: ..." : selindex is the index of the case that fired (source order, -1: default)
		t.lastSelIdx = tv.Tup[0].S
		t.ghostAt("after select")
		t.lastSelIdx = ""
	}
}

// closeOnlyChan: is v a load of a struct field that its type spec declares `closeonly <field>`?
func (t *FnTrans) closeOnlyChan(v ssa.Value) bool {
	u, ok := v.(*ssa.UnOp)
	if !ok || u.Op != token.MUL {
		return false
	}
	fa, ok := u.X.(*ssa.FieldAddr)
	if !ok {
		return false
	}
	pt, ok := t.resolve(fa.X.Type()).Underlying().(*types.Pointer)
	if !ok {
		return false
	}
	nt, ok := t.resolve(pt.Elem()).(*types.Named)
	if !ok {
		return false
	}
	st, ok := nt.Underlying().(*types.Struct)
	if !ok {
		return false
	}
	ts := t.eng.specs.Types[typeName(nt.Origin())]
	return ts != nil && ts.CloseOnly[st.Field(fa.Field).Name()]
}

func (t *FnTrans) goStmt(x *ssa.Go) {
	t.abstr["go-statement"] = true
	// arguments are evaluated; the spawned function runs concurrently: everything shared it may
	// write is outside sequential reasoning. Treated like an unknown call without result.
	key := "<go>"
	if f, ok := x.Call.Value.(*ssa.Function); ok {
		key = "go:" + fnKey(f)
	}
	// go f(..) / go func(){...}() with a function or closure under an `opt thread` contract: it is verified
	// separately as a thread entry (no locks held, monitor-protected state only); what it requires of the captured
	// values and arguments is an obligation here, at the spawn
	fv := t.val(x.Call.Value)
	if f, ok := x.Call.Value.(*ssa.Function); ok && fv.Fn == nil {
		fv.Fn = f
	}
	if fv.Fn != nil {
		if ct := t.eng.specs.Funcs[fnKey(fv.Fn)]; ct != nil && ct.Opts["thread"] != "" {
			env := &Env{t: t, vars: map[string]SVal{}, st: t.cur, pkg: t.fn.Pkg.Pkg, selfAlloc0: t.get("$alloc")}
			for i, v := range fv.Fn.FreeVars {
				if i < len(fv.Bnd) {
					T := t.resolve(v.Type())
					env.vars[v.Name()] = SVal{S: t.termOfOpt(fv.Bnd[i]), T: T, Sort: t.sortOf(T), Tgt: fv.Bnd[i].P}
				}
			}
			for i, p := range fv.Fn.Params {
				if i < len(x.Call.Args) {
					T := t.resolve(p.Type())
					env.vars[p.Name()] = SVal{S: t.term(x.Call.Args[i]), T: T, Sort: t.sortOf(T)}
				}
			}
			n := t.count("go:" + fnKey(fv.Fn))
			for i, r := range ct.Requires {
				// lock-state requirements describe the new thread (it holds nothing), not the spawner
				if strings.Contains(r.Text, "unlocked(") || strings.Contains(r.Text, "held(") {
					continue
				}
				t.obligeNamed(fmt.Sprintf("pre.go.%d.%d", n, i+1), "pre", env.evalBool(r.E), "thread entry requires: "+r.Text)
			}
			ct.Used = true
			return
		}
	}
	t.havocCall(key, &x.Call, nil)
}

// ---------- ghost updates ----------

// ghostUpdate executes "lhs = expr" where lhs is a ghost global or ghost field.
func (t *FnTrans) ghostUpdate(g *Clause, env *Env) {
	if strings.HasPrefix(g.Text, "owe ") {
		t.oweStmt(g, env)
		return
	}
	if strings.HasPrefix(g.Text, "take ") || strings.HasPrefix(g.Text, "give ") {
		t.tokenStmt(g, env)
		return
	}
	if strings.HasPrefix(g.Text, "choose ") {
		// choose lhs1, lhs2 with <expr>: the ghost locations get new values constrained by <expr>;
		// inside <expr>, old(e) is the value of e just before this statement
		rest := g.Text[len("choose "):]
		i := strings.Index(rest, " with ")
		if i < 0 {
			t.fail("%s:%d: choose needs 'with'", g.File, g.Line)
		}
		cond, err := ParseExpr(strings.TrimSpace(rest[i+6:]))
		if err != nil {
			t.fail("%s:%d: %v", g.File, g.Line, err)
		}
		before := t.cur.clone()
		env.st = t.cur
		for _, lhs := range splitTop(rest[:i]) {
			le, err := ParseExpr(lhs)
			if err != nil {
				t.fail("%s:%d: %v", g.File, g.Line, err)
			}
			t.ghostAssign(g, env, le, "", true)
		}
		env.st = t.cur
		saveOld := env.old
		env.old = before
		t.assume(env.evalBool(cond))
		env.old = saveOld
		t.abstr["ghost choose (definitional): "+g.Text[:minInt(len(g.Text), 60)]] = true
		return
	}
	if strings.HasPrefix(g.Text, "assert ") {
		e, err := ParseExpr(strings.TrimSpace(g.Text[len("assert "):]))
		if err != nil {
			t.fail("%s:%d: %v", g.File, g.Line, err)
		}
		env.st = t.cur
		t.oblige("gassert", env.evalBool(e), g.Text)
		return
	}
	if strings.HasPrefix(g.Text, "assume ") {
		// an unchecked assumption at a program point (reported in evidence)
		e, err := ParseExpr(strings.TrimSpace(g.Text[len("assume "):]))
		if err != nil {
			t.fail("%s:%d: %v", g.File, g.Line, err)
		}
		env.st = t.cur
		// vacuity guard: the assumption must not contradict what is known at this point
		n := t.count("ghost-assume")
		t.cover(fmt.Sprintf("before.assume.%d", n), "true")
		t.assume(env.evalBool(e))
		t.cover(fmt.Sprintf("after.assume.%d", n), "true")
		t.abstr[fmt.Sprintf("assumed (unchecked) %s: %s", g.Arg, strings.TrimSpace(g.Text[len("assume "):]))] = true
		return
	}
	i := strings.Index(g.Text, "=")
	for i >= 0 && (strings.HasPrefix(g.Text[i:], "==") || i > 0 && strings.ContainsRune("<>!=", rune(g.Text[i-1]))) {
		j := strings.Index(g.Text[i+2:], "=")
		if j < 0 {
			i = -1
			break
		}
		i = i + 2 + j
	}
	if i < 0 {
		t.fail("%s:%d: ghost update needs 'lhs = expr'", g.File, g.Line)
	}
	lhsE, err := ParseExpr(strings.TrimSpace(g.Text[:i]))
	if err != nil {
		t.fail("%s:%d: %v", g.File, g.Line, err)
	}
	rhsE, err := ParseExpr(strings.TrimSpace(g.Text[i+1:]))
	if err != nil {
		t.fail("%s:%d: %v", g.File, g.Line, err)
	}
	env.st = t.cur
	rhs := env.eval(rhsE)
	t.ghostAssign(g, env, lhsE, rhs.S, false)
}

func minInt(a, b int) int {
	if a < b {
		return a
	}
	return b
}

// ghostAssign stores val (or, with havoc, a fresh value) into the ghost location lhsE.
func (t *FnTrans) ghostAssign(g *Clause, env *Env, lhsE *Expr, val string, havoc bool) {
	switch lhsE.Op {
	case "id":
		if ls, ok := t.ct.GhostLocal[lhsE.Name]; ok && env.self {
			c := t.comp("GL."+lhsE.Name, ls)
			if havoc {
				val = t.newConst(c+"@choose", ls)
			}
			t.set(c, val)
			return
		}
		s, ok := t.eng.specs.Ghosts[env.pkg.Path()+"."+lhsE.Name]
		if !ok {
			t.fail("%s:%d: unknown ghost global %s", g.File, g.Line, lhsE.Name)
		}
		c := t.comp("GG."+env.pkg.Path()+"."+lhsE.Name, s)
		if havoc {
			val = t.newConst(c+"@choose", s)
		}
		t.set(c, val)
		if os.Getenv("GOVC_DEBUG_TP") != "" {
			fmt.Fprintf(os.Stderr, "ghostAssign %s := %.80s\n", c, val)
		}
		if !havoc {
			t.checkGlobalInv("ghost update of " + lhsE.Name)
		}
	case "sel":
		base := env.eval(lhsE.Args[0])
		n, ok := derefNamed(env.resolveT(base.T))
		if !ok {
			t.fail("%s:%d: ghost field of non-named type", g.File, g.Line)
		}
		ts := t.eng.specs.Types[typeName(n.Origin())]
		if ts == nil || ts.GhostField[lhsE.Name] == "" {
			t.fail("%s:%d: unknown ghost field %s", g.File, g.Line, lhsE.Name)
		}
		gsort := t.ghostSort(ts.GhostField[lhsE.Name], n)
		c := t.comp(ghostCompName(originName(n), lhsE.Name, ts.GhostField[lhsE.Name], gsort), "(Array Int "+gsort+")")
		if havoc {
			val = t.newConst(c+"@choose", gsort)
		}
		t.set(c, app("store", t.get(c), base.S, val))
	default:
		t.fail("%s:%d: unsupported ghost lhs", g.File, g.Line)
	}
}

// ---------- sentinels, axioms, spec functions ----------

func (t *FnTrans) sentinel(full string) string {
	n := q("err$" + full)
	if !t.declared[n] {
		t.declare(n, "Int")
		id := len(t.sentinels) + 1
		t.sentinels[full] = n
		// distinct negative constants: never equal to an allocated ref or nil
		t.emit(fmt.Sprintf("(assert (= %s (- %d)))", n, id))
		t.emit(fmt.Sprintf("(assert (err.is %s %s))", n, n))
		for o, on := range t.sentinels {
			if o != full {
				t.emit(fmt.Sprintf("(assert (not (err.is %s %s)))", n, on))
				t.emit(fmt.Sprintf("(assert (not (err.is %s %s)))", on, n))
			}
		}
	}
	return n
}

// globalAxioms: `axiom <expr>` lines of (assumed) package specifications constrain that package's ghost
// globals in the entry state (they are about model state that no contract lists as modified, or that
// every contract preserves). Only axioms of the function's own package and of packages it imports are
// emitted.
func (t *FnTrans) globalAxioms() {
	for _, a := range t.eng.specs.Axioms {
		var ap *types.Package
		if a.Arg == t.fn.Pkg.Pkg.Path() {
			ap = t.fn.Pkg.Pkg
		} else {
			for _, imp := range t.fn.Pkg.Pkg.Imports() {
				if imp.Path() == a.Arg {
					ap = imp
				}
			}
		}
		if ap == nil {
			continue
		}
		env := &Env{t: t, vars: map[string]SVal{}, st: t.entry, pkg: ap, selfAlloc0: q("$alloc@0")}
		t.emit("(assert " + env.evalBool(a.E) + ")")
		t.abstr["assumed axiom of "+a.Arg+": "+a.Text] = true
	}
}

func (t *FnTrans) useSpecFun(sf *SpecFun) {
	n := q("sf$" + sf.Name)
	if t.declared[n] {
		return
	}
	for _, ps := range append(append([]string{}, sf.PSorts...), sf.Ret) {
		if strings.HasPrefix(ps, "U_") {
			t.usort(ps[2:])
		}
	}
	if sf.Body == nil {
		t.declareFun(n, sf.PSorts, sf.Ret)
		return
	}
	t.declared[n] = true
	env := &Env{t: t, vars: map[string]SVal{}, st: t.cur, bound: map[string]SVal{}}
	var ps []string
	for i, p := range sf.Params {
		vn := q("sp$" + p)
		env.bound[p] = SVal{S: vn, Sort: sf.PSorts[i]}
		ps = append(ps, fmt.Sprintf("(%s %s)", vn, sf.PSorts[i]))
	}
	body := env.eval(sf.Body)
	t.emit(fmt.Sprintf("(define-fun %s (%s) %s %s)", n, strings.Join(ps, " "), sf.Ret, body.S))
}

// allocCheck: hook for the C02 allocation-bound obligations (make with an input-derived length).
func (t *FnTrans) allocCheck(x *ssa.MakeSlice, ln string) {
	if t.ct == nil {
		return
	}
	b, ok := t.ct.Opts["allocbound"]
	if !ok {
		return
	}
	e, err := ParseExpr(b)
	if err != nil {
		t.fail("allocbound: %v", err)
	}
	env := t.selfEnv(t.cur, t.entry)
	env.local = func(name string) (SVal, bool) { return t.localAt(name, x.Block(), t.cur) }
	bound := env.evalInt(e)
	t.oblige("alloc", app("<=", ln, bound), "allocation bounded by remaining input")
}

// ---------- loop write sets (static pre-pass) ----------
// The set of heap components a loop may write is computed from static types before
// translation; translation fails closed (set()) if it ever writes a component outside it.

func (t *FnTrans) computeLoopWrites() {
	for _, l := range t.loops {
		hasCall := false
		for b := range l.body {
			for _, in := range b.Instrs {
				t.instrWrites(in, l)
				if _, ok := in.(*ssa.Call); ok {
					hasCall = true
				}
			}
		}
		if hasCall && t.ct != nil {
			// ghost statements of this function attached to call sites may run inside the loop: those whose call
			// site name matches a call in the loop body (or all of them, if some call in the body cannot be named)
			names := map[string]bool{}
			unnamed := false
			for b := range l.body {
				for _, in := range b.Instrs {
					var c *ssa.CallCommon
					switch x := in.(type) {
					case *ssa.Call:
						c = &x.Call
					case *ssa.Defer:
						c = &x.Call
					case *ssa.Go:
						c = &x.Call
					default:
						continue
					}
					if _, isB := c.Value.(*ssa.Builtin); isB {
						continue
					}
					if n := t.staticCallName(c); n != "" {
						names[n] = true
					} else {
						unnamed = true
					}
				}
			}
			for _, g := range t.ct.Ghost {
				if g.Arg == "at entry" || g.Arg == "at return" {
					continue
				}
				if strings.HasPrefix(g.Text, "assert ") || strings.HasPrefix(g.Text, "assume ") {
					continue
				}
				if strings.HasPrefix(g.Arg, "before call ") || strings.HasPrefix(g.Arg, "after call ") {
					site := g.Arg[strings.Index(g.Arg, "call ")+5:]
					if k := strings.Index(site, " #"); k >= 0 {
						site = site[:k]
					}
					if !unnamed && !names[site] {
						continue // attached to a call that does not occur in this loop
					}
				}
				// other positions (select, acquire, unlock, wait, notify, send) may occur in any loop: assignments to ghost
				// locals there are part of every loop's write set (ghost fields / globals assigned at monitor positions are
				// covered by the monitor's own write set, as before)
				if !strings.HasPrefix(g.Arg, "before call ") && !strings.HasPrefix(g.Arg, "after call ") {
					k := strings.Index(g.Text, "=")
					if k <= 0 {
						continue
					}
					if _, isLocal := t.ct.GhostLocal[strings.TrimSpace(g.Text[:k])]; !isLocal {
						continue
					}
				}
				i := strings.Index(g.Text, "=")
				if i <= 0 {
					t.setAll(l, 553)
					continue
				}
				lhs := strings.TrimSpace(g.Text[:i])
				pk := t.fn.Pkg.Pkg.Path()
				if ls, ok := t.ct.GhostLocal[lhs]; ok {
					t.w(l, "GL."+lhs, ls)
				} else if gs, ok := t.eng.specs.Ghosts[pk+"."+lhs]; ok {
					t.w(l, "GG."+pk+"."+lhs, gs)
				} else {
					t.setAll(l, 561) // ghost field of some object: havoc conservatively
				}
			}
		}
	}
}

func (t *FnTrans) w(l *loopInfo, comp, sortS string) {
	t.comp(comp, sortS)
	l.writes[comp] = true
}

func (t *FnTrans) wAlloc(l *loopInfo) { t.w(l, "$alloc", "Int") }

func (t *FnTrans) wCell(l *loopInfo, T types.Type) {
	T = t.resolve(T)
	if _, isS := T.Underlying().(*types.Struct); isS {
		t.wStruct(l, T, "")
		return
	}
	if at, isA := T.Underlying().(*types.Array); isA {
		t.wElem(l, at.Elem())
		return
	}
	s := t.sortOf(T)
	t.w(l, "C."+mangle(s), "(Array Int "+s+")")
}

func (t *FnTrans) wElem(l *loopInfo, T types.Type) {
	s := t.sortOf(T)
	t.w(l, "E."+mangle(s), "(Array Int (Array Int "+s+"))")
}

func (t *FnTrans) wMap(l *loopInfo, mt *types.Map) {
	d, v, n := t.mapComps(mt)
	l.writes[d], l.writes[v], l.writes[n] = true, true, true
}

// wStruct: all scalar components of struct type T (fields of structs embedded by value included).
func (t *FnTrans) wStruct(l *loopInfo, T types.Type, prefix string) {
	T = t.resolve(T)
	st := T.Underlying().(*types.Struct)
	for i := 0; i < st.NumFields(); i++ {
		c, ft := t.fieldComp(T, prefix, i)
		t.wFieldComp(l, c, ft)
	}
}

func (t *FnTrans) wFieldComp(l *loopInfo, c string, ft types.Type) {
	ft = t.resolve(ft)
	if n, ok := ft.(*types.Named); ok && n.Obj().Pkg() != nil && n.Obj().Pkg().Path() == "sync/atomic" {
		if ap, ok := t.atomicCell(Val{P: &Ptr{Kind: "field", Comp: c, Ref: "0", T: ft}}, "sync/atomic."+n.Obj().Name()+".Load"); ok {
			t.w(l, ap.Comp, "(Array Int "+t.sortOf(ap.T)+")")
		}
	}
	if _, ok := ft.Underlying().(*types.Struct); ok {
		t.wStruct(l, ft, c)
		// lock state / atomic value components that intrinsics attach to this field
		t.w(l, "L"+c[1:], "(Array Int Int)")
		return
	}
	t.w(l, c, "(Array Int "+t.sortOf(ft)+")")
}

// staticAddrComps: components a store through addr may write.
func (t *FnTrans) staticAddrComps(addr ssa.Value, l *loopInfo) {
	switch a := addr.(type) {
	case *ssa.FieldAddr:
		comp, T, ok := t.staticFieldComp(a)
		if !ok {
			t.setAll(l, 631)
			return
		}
		t.wFieldComp(l, comp, T)
	case *ssa.IndexAddr:
		XT := t.resolve(a.X.Type())
		switch u := XT.Underlying().(type) {
		case *types.Slice:
			t.wElem(l, u.Elem())
		case *types.Pointer:
			t.staticAddrComps(a.X, l)
		}
	case *ssa.Global:
		t.wCell(l, a.Type().(*types.Pointer).Elem())
	default:
		pt, ok := t.resolve(addr.Type()).Underlying().(*types.Pointer)
		if !ok {
			t.setAll(l, 648)
			return
		}
		t.wCell(l, pt.Elem())
	}
}

func (t *FnTrans) staticFieldComp(a *ssa.FieldAddr) (string, types.Type, bool) {
	pt, ok := t.resolve(a.X.Type()).Underlying().(*types.Pointer)
	if !ok {
		return "", nil, false
	}
	ST := t.resolve(pt.Elem())
	if inner, ok := a.X.(*ssa.FieldAddr); ok {
		pc, _, ok := t.staticFieldComp(inner)
		if !ok {
			return "", nil, false
		}
		c, ft := t.fieldComp(ST, pc, a.Field)
		return c, ft, true
	}
	c, ft := t.fieldComp(ST, "", a.Field)
	return c, ft, true
}

// noteVia records that component comp is written in loop l through base value v (nil: unknown).
func (t *FnTrans) noteVia(l *loopInfo, comp string, v ssa.Value) {
	if v == nil {
		l.viaBad[comp] = true
		return
	}
	if in, ok := v.(ssa.Instruction); ok && in.Block() != nil && l.body[in.Block()] {
		// defined inside the loop: acceptable only as a re-load of a field of a loop-invariant object
		// (checked again at the loop head: the field itself must not be written by the loop)
		okReload := false
		if u, isU := v.(*ssa.UnOp); isU {
			if fa, isFA := u.X.(*ssa.FieldAddr); isFA {
				if xin, isIn := fa.X.(ssa.Instruction); !isIn || xin.Block() == nil || !l.body[xin.Block()] {
					okReload = true
				}
			}
			// ... or of a variable cell that lives outside the loop (captured variable, local declared before the
			// loop); the cell's component must not be written by the loop (checked at the loop head)
			if u.Op == token.MUL {
				if _, isFV := u.X.(*ssa.FreeVar); isFV {
					okReload = true
				}
				if al, isAl := u.X.(*ssa.Alloc); isAl && al.Block() != nil && !l.body[al.Block()] {
					okReload = true
				}
			}
		}
		if !okReload {
			l.viaBad[comp] = true
			return
		}
	}
	for _, o := range l.via[comp] {
		if o == v {
			return
		}
	}
	l.via[comp] = append(l.via[comp], v)
}

func (t *FnTrans) instrWrites(in ssa.Instruction, l *loopInfo) {
	t.instrWritesRaw(in, l)
	// which components are written only through loop-invariant bases (for the automatic loop frame)
	if st, ok := in.(*ssa.Store); ok {
		switch a := st.Addr.(type) {
		case *ssa.IndexAddr:
			if u, ok := t.resolve(a.X.Type()).Underlying().(*types.Slice); ok {
				t.noteVia(l, "E."+mangle(t.sortOf(u.Elem())), a.X)
				return
			}
		case *ssa.FieldAddr:
			if _, isFA := a.X.(*ssa.FieldAddr); !isFA {
				if comp, ft, ok := t.staticFieldComp(a); ok {
					if _, isS := t.resolve(ft).Underlying().(*types.Struct); !isS {
						t.noteVia(l, comp, a.X)
						return
					}
				}
			}
		case *ssa.Alloc, *ssa.FreeVar:
			// a scalar variable cell that lives outside the loop (captured or address-taken local): written only there
			if al, isAl := a.(*ssa.Alloc); isAl && (al.Block() == nil || l.body[al.Block()]) {
				break
			}
			if pt, ok := t.resolve(a.Type()).Underlying().(*types.Pointer); ok {
				ET := t.resolve(pt.Elem())
				_, isS := ET.Underlying().(*types.Struct)
				_, isA := ET.Underlying().(*types.Array)
				if !isS && !isA {
					t.noteVia(l, "C."+mangle(t.sortOf(ET)), a)
					return
				}
			}
		}
	}
	switch in.(type) {
	case *ssa.MakeChan:
		t.w(l, "CH.closed", "(Array Int Bool)")
		t.wAlloc(l)
	case *ssa.Alloc, *ssa.MakeSlice, *ssa.MakeMap, *ssa.MakeInterface, *ssa.MakeClosure, *ssa.Convert:
		// these write only into the object they allocate, which did not exist before the loop
		return
	}
	if st, ok := in.(*ssa.Store); ok {
		// store into an array allocated inside the loop (e.g. the backing array of a variadic call)
		if ia, ok := st.Addr.(*ssa.IndexAddr); ok {
			if al, ok := ia.X.(*ssa.Alloc); ok && al.Block() != nil && l.body[al.Block()] {
				return
			}
		}
		if al, ok := st.Addr.(*ssa.Alloc); ok && al.Block() != nil && l.body[al.Block()] {
			return
		}
	}
	if sl, ok := in.(*ssa.Slice); ok {
		if al, ok := sl.X.(*ssa.Alloc); ok && al.Block() != nil && l.body[al.Block()] {
			return
		}
	}
	tmp := &loopInfo{writes: map[string]bool{}, via: map[string][]ssa.Value{}, viaBad: map[string]bool{}, viaExpr: map[string][]viaExpr{}, body: l.body}
	t.viaCalls, t.viaNoted = true, map[string]bool{}
	t.instrWritesRaw(in, tmp)
	t.viaCalls = false
	for c := range tmp.writes {
		if t.viaNoted[c] && !tmp.viaBad[c] {
			// written by a callee only at a location given by a loop-invariant base
			for _, v := range tmp.via[c] {
				t.noteVia(l, c, v)
			}
			l.viaExpr[c] = append(l.viaExpr[c], tmp.viaExpr[c]...)
			continue
		}
		l.viaBad[c] = true
	}
}

func (t *FnTrans) instrWritesRaw(in ssa.Instruction, l *loopInfo) {
	switch x := in.(type) {
	case *ssa.Store:
		t.staticAddrComps(x.Addr, l)
	case *ssa.Alloc:
		t.wAlloc(l)
		t.wCell(l, x.Type().(*types.Pointer).Elem())
	case *ssa.MakeSlice:
		t.wAlloc(l)
		t.wElem(l, t.resolve(x.Type()).Underlying().(*types.Slice).Elem())
	case *ssa.MakeMap:
		t.wAlloc(l)
		t.wMap(l, t.resolve(x.Type()).Underlying().(*types.Map))
	case *ssa.MakeInterface, *ssa.MakeClosure, *ssa.MakeChan:
		t.wAlloc(l)
	case *ssa.MapUpdate:
		mt := t.resolve(x.Map.Type()).Underlying().(*types.Map)
		t.wMap(l, mt)
		if t.viaCalls {
			d, v, n := t.mapComps(mt)
			for _, c := range []string{d, v, n} {
				t.noteVia(l, c, x.Map)
				t.viaNoted[c] = true
			}
		}
	case *ssa.Slice:
		if pt, ok := t.resolve(x.X.Type()).Underlying().(*types.Pointer); ok {
			at := t.resolve(pt.Elem()).Underlying().(*types.Array)
			t.wElem(l, at.Elem())
		}
	case *ssa.Convert:
		if t.sortOf(x.X.Type()) == "Str" && t.sortOf(x.Type()) == "Slice" {
			t.wAlloc(l)
			t.wElem(l, types.Typ[types.Uint8])
		}
	case *ssa.Range:
		t.rangeComp(x, l)
	case *ssa.Next:
		t.rangeComp(x.Iter.(*ssa.Range), l)
	case *ssa.Call:
		t.callWrites(&x.Call, l)
	case *ssa.Defer, *ssa.Go:
		t.setAll(l, 807)
	}
}

func (t *FnTrans) rangeComp(x *ssa.Range, l *loopInfo) string {
	XT := t.resolve(x.X.Type())
	var c string
	if mt, ok := XT.Underlying().(*types.Map); ok {
		c = t.comp("R."+x.Name()+".visited", "(Array "+t.sortOf(mt.Key())+" Bool)")
		if l != nil {
			l.writes[t.comp("R."+x.Name()+".count", "Int")] = true
		}
	} else {
		c = t.comp("R."+x.Name()+".pos", "Int")
	}
	if l != nil {
		l.writes[c] = true
	}
	return c
}

func (t *FnTrans) callWrites(c *ssa.CallCommon, l *loopInfo) {
	if b, ok := c.Value.(*ssa.Builtin); ok {
		switch b.Name() {
		case "append":
			t.wAlloc(l)
			et := t.resolve(c.Args[0].Type()).Underlying().(*types.Slice).Elem()
			t.wElem(l, et)
			if t.viaCalls {
				// append writes into the array of its first argument or into a fresh one. If that argument is
				// a loop phi that is only ever re-assigned from appends to itself, the arrays written are the
				// initial one and arrays allocated inside the loop.
				comp := "E." + mangle(t.sortOf(et))
				var bases []ssa.Value
				ok := true
				switch a := c.Args[0].(type) {
				case *ssa.Phi:
					for i, e := range a.Edges {
						pred := a.Block().Preds[i]
						if a.Block().Dominates(pred) { // back edge
							call, isCall := e.(*ssa.Call)
							if !isCall {
								ok = false
								break
							}
							if bi, isB := call.Call.Value.(*ssa.Builtin); !isB || bi.Name() != "append" || call.Call.Args[0] != a {
								ok = false
							}
						} else {
							bases = append(bases, e)
						}
					}
				default:
					bases = append(bases, c.Args[0])
				}
				if ok {
					for _, b := range bases {
						t.noteVia(l, comp, b)
					}
					t.viaNoted[comp] = true
				}
			}
		case "copy":
			t.wElem(l, t.resolve(c.Args[0].Type()).Underlying().(*types.Slice).Elem())
		case "delete":
			mt := t.resolve(c.Args[0].Type()).Underlying().(*types.Map)
			t.wMap(l, mt)
			if t.viaCalls {
				d, v, n := t.mapComps(mt)
				for _, cc := range []string{d, v, n} {
					t.noteVia(l, cc, c.Args[0])
					t.viaNoted[cc] = true
				}
			}
		case "close":
			t.w(l, "CH.closed", "(Array Int Bool)")
		}
		return
	}
	var key string
	var callee *ssa.Function
	var ct *Contract
	if c.IsInvoke() {
		key = ifaceKey(t.resolve(c.Value.Type()), c.Method)
	} else if f, ok := c.Value.(*ssa.Function); ok {
		key, callee = fnKey(f), f
	} else if mc, ok := c.Value.(*ssa.MakeClosure); ok {
		callee = mc.Fn.(*ssa.Function)
		key = fnKey(callee)
	} else if p, ok := c.Value.(*ssa.Parameter); ok && t.ct != nil && t.ct.Callback[p.Name()] != nil {
		ct = t.ct.Callback[p.Name()]
	} else if p, ok := c.Value.(*ssa.Phi); ok && t.ct != nil && p.Comment != "" && t.ct.Callback[p.Comment] != nil {
		ct = t.ct.Callback[p.Comment]
	} else if u, ok := c.Value.(*ssa.UnOp); ok && t.ct != nil {
		if ia, ok := u.X.(*ssa.IndexAddr); ok {
			if pr, ok := ia.X.(*ssa.Parameter); ok && t.ct.Callback[pr.Name()] != nil {
				ct = t.ct.Callback[pr.Name()]
			}
		}
		if fv, ok := u.X.(*ssa.FreeVar); ok && t.ct.Callback[fv.Name()] != nil {
			ct = t.ct.Callback[fv.Name()]
		} else if fa, ok := u.X.(*ssa.FieldAddr); ok {
			if pt, ok := t.resolve(fa.X.Type()).Underlying().(*types.Pointer); ok {
				if st, ok := t.resolve(pt.Elem()).Underlying().(*types.Struct); ok {
					if ts := t.eng.specs.Types[typeName(originOf(t.resolve(pt.Elem())))]; ts != nil {
						ct = ts.Callbacks[st.Field(fa.Field).Name()]
					}
				}
			}
		}
	}
	if ct == nil && isIntrinsicKey(key) {
		if !t.intrinsicWrites(key, c, l) {
			t.setAll(l, 917)
		}
		return
	}
	if ct == nil {
		if ct = t.eng.specs.Funcs[key+"@"+t.fn.Pkg.Pkg.Path()]; ct == nil {
			ct = t.eng.specs.Funcs[key]
		}
	}
	if ct == nil {
		t.setAll(l, 925)
		return
	}
	t.wAlloc(l)
	for _, g := range ct.Ghost {
		// ghost updates performed on behalf of callback contracts
		if strings.HasPrefix(g.Text, "assert ") || strings.HasPrefix(g.Text, "assume ") {
			continue
		}
		if i := strings.Index(g.Text, "="); i > 0 {
			name := strings.TrimSpace(g.Text[:i])
			pk := t.fn.Pkg.Pkg.Path()
			if _, isLocal := ct.GhostLocal[name]; isLocal {
				// a ghost local of the callee: not visible to (nor changed for) the caller
			} else if gs, ok := t.eng.specs.Ghosts[pk+"."+name]; ok {
				t.w(l, "GG."+pk+"."+name, gs)
			} else {
				t.setAll(l, 940)
			}
		}
	}
	if len(ct.Modifies) == 0 {
		return
	}
	// static typing of the modifies items against the actual argument types
	sig := c.Signature()
	if callee != nil {
		sig = callee.Signature
	}
	pn, _ := calleeNames(ct, callee, sig, c.IsInvoke())
	ptypes := map[string]types.Type{}
	var actual []types.Type
	if c.IsInvoke() {
		actual = append(actual, t.resolve(c.Value.Type()))
	}
	for _, a := range c.Args {
		actual = append(actual, t.resolve(a.Type()))
	}
	for i, n := range pn {
		if i < len(actual) {
			ptypes[n] = actual[i]
		}
	}
	if callee != nil {
		if mc, ok := c.Value.(*ssa.MakeClosure); ok {
			for i, fv := range callee.FreeVars {
				if i < len(mc.Bindings) {
					ptypes[fv.Name()] = t.resolve(mc.Bindings[i].Type())
				}
			}
		}
	}
	var pkg *types.Package
	if callee != nil && callee.Pkg != nil {
		pkg = callee.Pkg.Pkg
	} else if c.IsInvoke() && c.Method.Pkg() != nil {
		pkg = c.Method.Pkg()
	} else {
		pkg = t.fn.Pkg.Pkg
	}
	if ct.DeclPkg != "" {
		if sp := t.eng.byPath[ct.DeclPkg]; sp != nil {
			pkg = sp.Pkg
		}
	}
	// actual argument values by parameter name (for *param targets that are field addresses)
	t.staticArgs = map[string]ssa.Value{}
	var actualV []ssa.Value
	if c.IsInvoke() {
		actualV = append(actualV, c.Value)
	}
	actualV = append(actualV, c.Args...)
	for i, n := range pn {
		if i < len(actualV) {
			t.staticArgs[n] = actualV[i]
		}
	}
	for _, m := range ct.Modifies {
		if !t.staticMod(m.E, ptypes, pkg, l) {
			t.setAll(l, 1002)
			return
		}
	}
}

// staticType: Go type of a simple spec path expression, from parameter types alone.
func (t *FnTrans) staticType(x *Expr, ptypes map[string]types.Type) types.Type {
	switch x.Op {
	case "id":
		return ptypes[x.Name]
	case "sel":
		bt := t.staticType(x.Args[0], ptypes)
		if bt == nil {
			return nil
		}
		bt = t.resolve(bt)
		if p, ok := bt.Underlying().(*types.Pointer); ok {
			bt = t.resolve(p.Elem())
		}
		st, ok := bt.Underlying().(*types.Struct)
		if !ok {
			return nil
		}
		_, ft := findField(st, x.Name)
		return ft
	case "un":
		if x.Name == "*" {
			bt := t.staticType(x.Args[0], ptypes)
			if bt == nil {
				return nil
			}
			if p, ok := t.resolve(bt).Underlying().(*types.Pointer); ok {
				return p.Elem()
			}
		}
	case "idx":
		bt := t.staticType(x.Args[0], ptypes)
		if bt == nil {
			return nil
		}
		switch u := t.resolve(bt).Underlying().(type) {
		case *types.Slice:
			return u.Elem()
		case *types.Array:
			return u.Elem()
		case *types.Map:
			return u.Elem()
		}
	}
	return nil
}

func (t *FnTrans) staticMod(x *Expr, ptypes map[string]types.Type, pkg *types.Package, l *loopInfo) bool {
	lookupT := func(name string) types.Type {
		if b, ok := basicTypes[name]; ok {
			return b
		}
		if pkg != nil {
			if o := pkg.Scope().Lookup(name); o != nil {
				if tn, ok := o.(*types.TypeName); ok {
					return tn.Type()
				}
			}
		}
		return nil
	}
	switch {
	case x.Op == "id" && x.Name == "everything":
		return false
	case x.Op == "id" && x.Name == "nothing":
		return true
	case x.Op == "id" && x.Name == "chans":
		t.w(l, "CH.closed", "(Array Int Bool)")
		return true
	case x.Op == "call" && x.Name == "elems":
		T := t.staticType(x.Args[0], ptypes)
		if T == nil {
			return false
		}
		u, ok := t.resolve(T).Underlying().(*types.Slice)
		if !ok {
			return false
		}
		t.wElem(l, u.Elem())
		if t.viaCalls && t.staticArgs != nil {
			args := map[string]ssa.Value{}
			for k, v := range t.staticArgs {
				args[k] = v
			}
			c := "E." + mangle(t.sortOf(u.Elem()))
			l.viaExpr[c] = append(l.viaExpr[c], viaExpr{e: x.Args[0], args: args, ptypes: ptypes, pkg: pkg, kind: "elems"})
			t.viaNoted[c] = true
		}
		return true
	case x.Op == "call" && x.Name == "monitor":
		T := t.staticType(x.Args[0], ptypes)
		if T == nil {
			return false
		}
		n, ok := derefNamed(t.resolve(T))
		if !ok {
			return false
		}
		ts := t.eng.specs.Types[typeName(n.Origin())]
		if ts == nil {
			return false
		}
		for _, m := range ts.Monitors {
			t.monitorWrites(&monRef{ts: ts, mon: m}, tshort(ts.Name), l, nil)
		}
		return true
	case x.Op == "call" && (x.Name == "cells" || x.Name == "allelems"):
		var T types.Type
		a := x.Args[0]
		depth := 0
		for a.Op == "un" && a.Name == "*" {
			a = a.Args[0]
			depth++
		}
		if a.Op == "id" {
			T = lookupT(a.Name)
			if T == nil {
				T = t.typeParam(a.Name)
			}
		}
		if T == nil {
			return false
		}
		for ; depth > 0; depth-- {
			T = types.NewPointer(T)
		}
		if x.Name == "cells" {
			t.wCell(l, T)
		} else {
			t.wElem(l, T)
		}
		return true
	case x.Op == "call" && x.Name == "allmaps":
		T := t.staticType(x.Args[0], ptypes)
		if T == nil {
			return false
		}
		mt, ok := t.resolve(T).Underlying().(*types.Map)
		if !ok {
			return false
		}
		t.wMap(l, mt)
		return true
	case x.Op == "call" && x.Name == "map":
		T := t.staticType(x.Args[0], ptypes)
		if T == nil {
			return false
		}
		mt, ok := t.resolve(T).Underlying().(*types.Map)
		if !ok {
			return false
		}
		t.wMap(l, mt)
		if t.viaCalls && t.staticArgs != nil {
			args := map[string]ssa.Value{}
			for k, v := range t.staticArgs {
				args[k] = v
			}
			d, v, n := t.mapComps(mt)
			for _, c := range []string{d, v, n} {
				l.viaExpr[c] = append(l.viaExpr[c], viaExpr{e: x.Args[0], args: args, ptypes: ptypes, pkg: pkg, kind: "map"})
				t.viaNoted[c] = true
			}
		}
		return true
	case x.Op == "call" && x.Name == "lock":
		// lock state of one mutex field: L.<type>.<field>
		a := x.Args[0]
		if a.Op != "sel" {
			return false
		}
		ST := t.staticType(a.Args[0], ptypes)
		if ST == nil {
			return false
		}
		ST = t.resolve(ST)
		if p, ok := ST.Underlying().(*types.Pointer); ok {
			ST = t.resolve(p.Elem())
		}
		st, ok := ST.Underlying().(*types.Struct)
		if !ok {
			return false
		}
		path, _ := findField(st, a.Name)
		if len(path) != 1 {
			return false
		}
		c, _ := t.fieldComp(ST, "", path[0])
		t.w(l, "L"+c[1:], "(Array Int Int)")
		return true
	case x.Op == "call" && x.Name == "atomic":
		// the value cell of a sync/atomic object: by pointer (cell heap) or embedded by value (field component)
		T := t.staticType(x.Args[0], ptypes)
		if T == nil {
			return false
		}
		T = t.resolve(T)
		byPtr := false
		if p, ok := T.Underlying().(*types.Pointer); ok {
			T = t.resolve(p.Elem())
			byPtr = true
		}
		n, ok := T.(*types.Named)
		if !ok || n.Obj().Pkg() == nil || n.Obj().Pkg().Path() != "sync/atomic" {
			return false
		}
		vs := "Int"
		if n.Obj().Name() == "Bool" {
			vs = "Bool"
		}
		if byPtr {
			t.w(l, "C.$atomic."+n.Obj().Name(), "(Array Int "+vs+")")
			return true
		}
		// embedded by value: x.f with x a pointer to a struct
		a := x.Args[0]
		if a.Op != "sel" {
			return false
		}
		ST := t.staticType(a.Args[0], ptypes)
		if ST == nil {
			return false
		}
		ST = t.resolve(ST)
		if p, ok := ST.Underlying().(*types.Pointer); ok {
			ST = t.resolve(p.Elem())
		} else {
			return false
		}
		st, ok := ST.Underlying().(*types.Struct)
		if !ok {
			return false
		}
		path, _ := findField(st, a.Name)
		if len(path) != 1 {
			return false
		}
		c, _ := t.fieldComp(ST, "", path[0])
		t.w(l, c+".$a", "(Array Int "+vs+")")
		return true
	case x.Op == "call" && x.Name == "ghost":
		name := x.Args[0].Name
		gp := pkg
		if a := x.Args[0]; a.Op == "sel" && a.Args[0].Op == "id" {
			if p := t.eng.findPkg(a.Args[0].Name, pkg); p != nil {
				gp = p
			}
		}
		if gp == nil {
			return false
		}
		if s, ok := t.eng.specs.Ghosts[gp.Path()+"."+name]; ok {
			t.w(l, "GG."+gp.Path()+"."+name, s)
			return true
		}
		return false
	case x.Op == "un" && x.Name == "*":
		if x.Args[0].Op == "id" {
			if av, ok := t.staticArgs[x.Args[0].Name]; ok {
				switch a := av.(type) {
				case *ssa.FieldAddr:
					t.staticAddrComps(av, l)
					if _, nested := a.X.(*ssa.FieldAddr); !nested && t.viaCalls {
						if comp, ft, ok := t.staticFieldComp(a); ok {
							if _, isS := t.resolve(ft).Underlying().(*types.Struct); !isS {
								t.noteVia(l, comp, a.X)
								t.viaNoted[comp] = true
							}
						}
					}
					return true
				case *ssa.IndexAddr, *ssa.Global:
					t.staticAddrComps(av, l)
					return true
				}
			}
		}
		T := t.staticType(x.Args[0], ptypes)
		if T == nil {
			return false
		}
		p, ok := t.resolve(T).Underlying().(*types.Pointer)
		if !ok {
			return false
		}
		t.wCell(l, p.Elem())
		return true
	case x.Op == "sel":
		var ST types.Type
		if x.Args[0].Op == "id" && ptypes[x.Args[0].Name] == nil {
			ST = lookupT(x.Args[0].Name)
		} else {
			ST = t.staticType(x.Args[0], ptypes)
		}
		if ST == nil {
			return false
		}
		ST = t.resolve(ST)
		if p, ok := ST.Underlying().(*types.Pointer); ok {
			ST = t.resolve(p.Elem())
		}
		st, ok := ST.Underlying().(*types.Struct)
		if !ok {
			return false
		}
		// the owner of the field may itself be a by-value embedded path: only direct fields of
		// heap objects are supported statically
		if x.Args[0].Op == "sel" {
			if bt := t.staticType(x.Args[0], ptypes); bt != nil {
				if _, isPtr := t.resolve(bt).Underlying().(*types.Pointer); !isPtr {
					return false
				}
			}
		}
		if path, _ := findField(st, x.Name); path != nil {
			cur := ST
			prefix := ""
			var c string
			var ft types.Type
			for _, i := range path {
				c, ft = t.fieldComp(cur, prefix, i)
				prefix = c
				cur = t.resolve(ft)
			}
			t.wFieldComp(l, c, ft)
			isTypeName := x.Args[0].Op == "id" && ptypes[x.Args[0].Name] == nil
			if t.viaCalls && t.staticArgs != nil && len(path) == 1 && !isTypeName {
				// a scalar field of the object the path denotes: written only there
				if _, isS := t.resolve(ft).Underlying().(*types.Struct); !isS {
					args := map[string]ssa.Value{}
					for k, v := range t.staticArgs {
						args[k] = v
					}
					l.viaExpr[c] = append(l.viaExpr[c], viaExpr{e: x.Args[0], args: args, ptypes: ptypes, pkg: pkg, kind: "field"})
					t.viaNoted[c] = true
				}
			}
			return true
		}
		if ts := t.eng.specs.Types[typeName(ST)]; ts != nil {
			if gs, ok := ts.GhostField[x.Name]; ok {
				t.w(l, ghostCompName(originName(ST), x.Name, gs, t.ghostSort(gs, ST)), "(Array Int "+t.ghostSort(gs, ST)+")")
				return true
			}
		}
		return false
	}
	return false
}

var _ = sort.Strings

// setAll: the loop's write set cannot be determined statically: everything is havocked at the loop head
func (t *FnTrans) setAll(l *loopInfo, why int) {
	l.all = true
	if os.Getenv("GOVC_DEBUG_LOOP") != "" {
		fmt.Fprintf(os.Stderr, "loop-havoc-all in %s: misc.go:%d\n", t.fn.Name(), why)
	}
}

// staticCallName: the name under which ghost positions refer to this call ("Type.Method", "Func", "Type#field"),
// "" if it cannot be determined statically
func (t *FnTrans) staticCallName(c *ssa.CallCommon) string {
	n := ""
	if c.IsInvoke() {
		n = ifaceKey(t.resolve(c.Value.Type()), c.Method)
	} else if f := c.StaticCallee(); f != nil {
		n = fnKey(f)
	} else if u, ok := c.Value.(*ssa.UnOp); ok {
		if fa, ok := u.X.(*ssa.FieldAddr); ok {
			if pt, ok := t.resolve(fa.X.Type()).Underlying().(*types.Pointer); ok {
				if nt, ok := t.resolve(pt.Elem()).(*types.Named); ok {
					if st, ok := nt.Underlying().(*types.Struct); ok {
						n = typeName(nt.Origin()) + "#" + st.Field(fa.Field).Name()
					}
				}
			}
		}
	}
	if n == "" {
		return ""
	}
	if i := strings.LastIndex(n, "/"); i >= 0 {
		n = n[i+1:]
	}
	if i := strings.Index(n, "."); i >= 0 {
		n = n[i+1:]
	}
	return n
}
