package main

import (
	"fmt"
	"strings"
	"unicode"
)

// Spec expression AST.
type Expr struct {
	Op   string // int id bin un call sel idx slice forall exists ite str
	Name string // operator, identifier, field, function name
	Args []*Expr
	Vars []BVar
	Pos  int
}

type BVar struct{ Name, Sort string }

func (e *Expr) String() string {
	switch e.Op {
	case "int", "id":
		return e.Name
	case "str":
		return fmt.Sprintf("%q", e.Name)
	case "bin":
		return "(" + e.Args[0].String() + " " + e.Name + " " + e.Args[1].String() + ")"
	case "un":
		return e.Name + e.Args[0].String()
	case "call":
		var a []string
		for _, x := range e.Args {
			a = append(a, x.String())
		}
		return e.Name + "(" + strings.Join(a, ", ") + ")"
	case "sel":
		return e.Args[0].String() + "." + e.Name
	case "idx":
		return e.Args[0].String() + "[" + e.Args[1].String() + "]"
	case "forall", "exists":
		var v []string
		for _, b := range e.Vars {
			v = append(v, b.Name+" "+b.Sort)
		}
		return "(" + e.Op + " " + strings.Join(v, ", ") + " :: " + e.Args[0].String() + ")"
	case "slicetype":
		return "[]" + e.Args[0].String()
	case "ite":
		return "(" + e.Args[0].String() + " ? " + e.Args[1].String() + " : " + e.Args[2].String() + ")"
	}
	return "?" + e.Op
}

type tok struct {
	k string // id int op str eof
	s string
	p int
}

func lex(s string) ([]tok, error) {
	var out []tok
	i := 0
	for i < len(s) {
		c := rune(s[i])
		switch {
		case unicode.IsSpace(c):
			i++
		case unicode.IsLetter(c) || c == '_' || c == '$':
			j := i
			for j < len(s) && (unicode.IsLetter(rune(s[j])) || unicode.IsDigit(rune(s[j])) || s[j] == '_' || s[j] == '$' || s[j] == '\'') {
				j++
			}
			out = append(out, tok{"id", s[i:j], i})
			i = j
		case unicode.IsDigit(c):
			j := i
			for j < len(s) && (unicode.IsDigit(rune(s[j])) || s[j] == '_' || s[j] == 'x' || (s[j] >= 'a' && s[j] <= 'f') || (s[j] >= 'A' && s[j] <= 'F')) {
				j++
			}
			out = append(out, tok{"int", strings.ReplaceAll(s[i:j], "_", ""), i})
			i = j
		case c == '"':
			j := i + 1
			for j < len(s) && s[j] != '"' {
				j++
			}
			if j >= len(s) {
				return nil, fmt.Errorf("unterminated string")
			}
			out = append(out, tok{"str", s[i+1 : j], i})
			i = j + 1
		default:
			ops := []string{"<==>", "==>", "::", "==", "!=", "<=", ">=", "&&", "||", "<<", ">>", "+", "-", "*", "/", "%", "<", ">", "!", "(", ")", "[", "]", ",", ".", ":", "?", "^", "&", "|"}
			found := false
			for _, o := range ops {
				if strings.HasPrefix(s[i:], o) {
					out = append(out, tok{"op", o, i})
					i += len(o)
					found = true
					break
				}
			}
			if !found {
				return nil, fmt.Errorf("unexpected character %q at %d", c, i)
			}
		}
	}
	out = append(out, tok{"eof", "", len(s)})
	return out, nil
}

type parser struct {
	t []tok
	i int
}

func ParseExpr(s string) (*Expr, error) {
	t, err := lex(s)
	if err != nil {
		return nil, err
	}
	p := &parser{t: t}
	e, err := p.top()
	if err != nil {
		return nil, err
	}
	if p.peek().k != "eof" {
		return nil, fmt.Errorf("trailing input at %q", p.peek().s)
	}
	return e, nil
}

func (p *parser) peek() tok { return p.t[p.i] }
func (p *parser) next() tok { t := p.t[p.i]; p.i++; return t }
func (p *parser) isOp(s string) bool {
	return p.peek().k == "op" && p.peek().s == s
}
func (p *parser) isID(s string) bool { return p.peek().k == "id" && p.peek().s == s }
func (p *parser) expect(s string) error {
	if !p.isOp(s) {
		return fmt.Errorf("expected %q, found %q", s, p.peek().s)
	}
	p.i++
	return nil
}

// isQuant: forall/exists start a quantifier only when followed by a bound variable
// (so that Go identifiers named "exists" can be used in contracts).
func (p *parser) isQuant() bool {
	if !(p.isID("forall") || p.isID("exists")) {
		return false
	}
	if p.i+2 >= len(p.t) || p.t[p.i+1].k != "id" {
		return false
	}
	n := p.t[p.i+2]
	return n.k == "id" || (n.k == "op" && (n.s == "::" || n.s == "," || n.s == "*"))
}

func (p *parser) top() (*Expr, error) {
	if p.isQuant() {
		q := p.next().s
		var vars []BVar
		for {
			if p.peek().k != "id" {
				return nil, fmt.Errorf("bound variable expected")
			}
			n := p.next().s
			sort := "Int"
			if p.isOp("*") && p.t[p.i+1].k == "id" {
				p.i++
				sort = "*" + p.next().s
			} else if p.peek().k == "id" {
				sort = p.next().s
			}
			vars = append(vars, BVar{n, sort})
			if p.isOp(",") {
				p.i++
				continue
			}
			break
		}
		if err := p.expect("::"); err != nil {
			return nil, err
		}
		body, err := p.top()
		if err != nil {
			return nil, err
		}
		return &Expr{Op: q, Vars: vars, Args: []*Expr{body}}, nil
	}
	return p.iff()
}

func (p *parser) iff() (*Expr, error) {
	l, err := p.impl()
	if err != nil {
		return nil, err
	}
	for p.isOp("<==>") {
		p.i++
		r, err := p.impl()
		if err != nil {
			return nil, err
		}
		l = &Expr{Op: "bin", Name: "<==>", Args: []*Expr{l, r}}
	}
	return l, nil
}

func (p *parser) impl() (*Expr, error) {
	l, err := p.tern()
	if err != nil {
		return nil, err
	}
	if p.isOp("==>") {
		p.i++
		var r *Expr
		if p.isQuant() {
			r, err = p.top()
		} else {
			r, err = p.impl()
		}
		if err != nil {
			return nil, err
		}
		return &Expr{Op: "bin", Name: "==>", Args: []*Expr{l, r}}, nil
	}
	return l, nil
}

func (p *parser) tern() (*Expr, error) {
	c, err := p.or()
	if err != nil {
		return nil, err
	}
	if p.isOp("?") {
		p.i++
		a, err := p.tern()
		if err != nil {
			return nil, err
		}
		if err := p.expect(":"); err != nil {
			return nil, err
		}
		b, err := p.tern()
		if err != nil {
			return nil, err
		}
		return &Expr{Op: "ite", Args: []*Expr{c, a, b}}, nil
	}
	return c, nil
}

func (p *parser) binl(sub func() (*Expr, error), ops ...string) (*Expr, error) {
	l, err := sub()
	if err != nil {
		return nil, err
	}
	for {
		hit := ""
		for _, o := range ops {
			if p.isOp(o) || p.isID(o) {
				hit = o
			}
		}
		if hit == "" {
			return l, nil
		}
		p.i++
		var r *Expr
		if (hit == "&&" || hit == "||") && p.isQuant() {
			r, err = p.top()
		} else {
			r, err = sub()
		}
		if err != nil {
			return nil, err
		}
		l = &Expr{Op: "bin", Name: hit, Args: []*Expr{l, r}}
	}
}

func (p *parser) or() (*Expr, error)  { return p.binl(p.and, "||") }
func (p *parser) and() (*Expr, error) { return p.binl(p.cmp, "&&") }
func (p *parser) cmp() (*Expr, error) {
	l, err := p.add()
	if err != nil {
		return nil, err
	}
	for _, o := range []string{"==", "!=", "<=", ">=", "<", ">"} {
		if p.isOp(o) {
			p.i++
			r, err := p.add()
			if err != nil {
				return nil, err
			}
			e := &Expr{Op: "bin", Name: o, Args: []*Expr{l, r}}
			// chained comparison a <= b < c
			for _, o2 := range []string{"<=", "<", ">=", ">"} {
				if p.isOp(o2) {
					p.i++
					r2, err := p.add()
					if err != nil {
						return nil, err
					}
					e = &Expr{Op: "bin", Name: "&&", Args: []*Expr{e, {Op: "bin", Name: o2, Args: []*Expr{r, r2}}}}
					break
				}
			}
			return e, nil
		}
	}
	return l, nil
}
func (p *parser) add() (*Expr, error) { return p.binl(p.mul, "+", "-") }
func (p *parser) mul() (*Expr, error) { return p.binl(p.unary, "*", "/", "%", "div", "mod") }
func (p *parser) unary() (*Expr, error) {
	if p.isOp("!") || p.isOp("-") {
		o := p.next().s
		x, err := p.unary()
		if err != nil {
			return nil, err
		}
		return &Expr{Op: "un", Name: o, Args: []*Expr{x}}, nil
	}
	return p.postfix()
}

func (p *parser) postfix() (*Expr, error) {
	e, err := p.primary()
	if err != nil {
		return nil, err
	}
	for {
		switch {
		case p.isOp("."):
			p.i++
			if p.peek().k != "id" {
				return nil, fmt.Errorf("field name expected after '.'")
			}
			e = &Expr{Op: "sel", Name: p.next().s, Args: []*Expr{e}}
		case p.isOp("["):
			p.i++
			var lo *Expr
			if !p.isOp(":") {
				lo, err = p.top()
				if err != nil {
					return nil, err
				}
			}
			if p.isOp(":") {
				p.i++
				var hi *Expr
				if !p.isOp("]") {
					hi, err = p.top()
					if err != nil {
						return nil, err
					}
				}
				if err := p.expect("]"); err != nil {
					return nil, err
				}
				e = &Expr{Op: "slice", Args: []*Expr{e, lo, hi}}
			} else {
				args := []*Expr{e, lo}
				for p.isOp(",") { // Generic[A, B]: further type arguments
					p.i++
					a, err := p.top()
					if err != nil {
						return nil, err
					}
					args = append(args, a)
				}
				if err := p.expect("]"); err != nil {
					return nil, err
				}
				e = &Expr{Op: "idx", Args: args}
			}
		case p.isOp("(") && (e.Op == "id" || e.Op == "sel"):
			p.i++
			var args []*Expr
			for !p.isOp(")") {
				a, err := p.top()
				if err != nil {
					return nil, err
				}
				args = append(args, a)
				if p.isOp(",") {
					p.i++
				} else if !p.isOp(")") {
					return nil, fmt.Errorf("expected , or ) in call, found %q", p.peek().s)
				}
			}
			p.i++
			name := e.Name
			if e.Op == "sel" {
				// method-like spec call x.f(args) => f(x, args)
				args = append([]*Expr{e.Args[0]}, args...)
			}
			e = &Expr{Op: "call", Name: name, Args: args}
		default:
			return e, nil
		}
	}
}

func (p *parser) primary() (*Expr, error) {
	t := p.next()
	switch t.k {
	case "int":
		return &Expr{Op: "int", Name: t.s}, nil
	case "str":
		return &Expr{Op: "str", Name: t.s}, nil
	case "id":
		return &Expr{Op: "id", Name: t.s}, nil
	case "op":
		if t.s == "(" {
			e, err := p.top()
			if err != nil {
				return nil, err
			}
			if err := p.expect(")"); err != nil {
				return nil, err
			}
			return e, nil
		}
		if t.s == "[" && p.isOp("]") { // slice type []T (type arguments only)
			p.i++
			x, err := p.unary()
			if err != nil {
				return nil, err
			}
			return &Expr{Op: "slicetype", Args: []*Expr{x}}, nil
		}
		if t.s == "*" { // dereference
			x, err := p.unary()
			if err != nil {
				return nil, err
			}
			return &Expr{Op: "un", Name: "*", Args: []*Expr{x}}, nil
		}
	}
	return nil, fmt.Errorf("unexpected token %q", t.s)
}
