package main

import (
	"context"
	"encoding/json"
	"flag"
	"fmt"
	"os"
	"path/filepath"
	"regexp"
	"sort"
	"strings"
	"sync"
	"time"
)

// Claim: what a property's check covers (read from /verif/claims/<id>.json).
type Claim struct {
	ID    string `json:"id"`
	Units []struct {
		Module   string   `json:"module"`
		Packages []string `json:"packages"`
	} `json:"units"`
	Functions     []string `json:"functions"` // regexps over contract keys
	NotDecided    []string `json:"not_decided"`
	Assumptions   []string `json:"assumptions"`
	Bounded       []string `json:"bounded"`
	Replay        string   `json:"replay"`
	ContractFiles string   `json:"contract_files"` // regexp over contract file base names (default: all)
	Kinds         string   `json:"kinds"`          // regexp over obligation kinds this claim consists of (default: all)
}

var verifDir = "/verif"

func main() {
	id := flag.String("id", "", "property id")
	tier := flag.String("tier", "quick", "quick|thorough")
	repo := flag.String("repo", "", "repository root (default $VERIF_REPO or /repo)")
	dump := flag.String("dump", "", "dump SMT of obligations matching this regexp to stdout")
	only := flag.String("only", "", "only functions whose key matches this regexp")
	list := flag.Bool("list", false, "list obligations and verdicts")
	replayFile := flag.String("replay", "", "re-run a replay file")
	flag.Parse()
	if d := os.Getenv("VERIF_DIR"); d != "" {
		verifDir = d
	}
	if *repo == "" {
		*repo = os.Getenv("VERIF_REPO")
	}
	if *repo == "" {
		*repo = "/repo"
	}
	if t := os.Getenv("VERIF_TIER"); t == "quick" || t == "thorough" {
		*tier = t
	}
	if *replayFile != "" {
		os.Exit(runReplayFile(*replayFile, *repo))
	}
	if *id == "" {
		fmt.Fprintln(os.Stderr, "usage: govc -id Cxx [-tier quick|thorough]")
		os.Exit(2)
	}
	os.Exit(runCheck(*id, *tier, *repo, *dump, *only, *list))
}

type knownFinding struct {
	Prop, Obl, Text string
	re              *regexp.Regexp
}

func loadKnown() []knownFinding {
	b, err := os.ReadFile(filepath.Join(verifDir, "known-findings.txt"))
	if err != nil {
		return nil
	}
	var out []knownFinding
	for _, l := range strings.Split(string(b), "\n") {
		l = strings.TrimSpace(l)
		if !strings.HasPrefix(l, "known:") {
			continue
		}
		f := strings.Fields(l[len("known:"):])
		k := knownFinding{}
		var rest []string
		for _, w := range f {
			switch {
			case strings.HasPrefix(w, "property=") && k.Prop == "":
				k.Prop = w[len("property="):]
			case strings.HasPrefix(w, "obligation=") && k.Obl == "":
				k.Obl = w[len("obligation="):]
			default:
				rest = append(rest, w)
			}
		}
		k.Text = strings.Join(rest, " ")
		out = append(out, k)
	}
	return out
}

func runCheck(id, tier, repo, dump, only string, list bool) int {
	t0 := time.Now()
	seed := 0
	fmt.Sscanf(os.Getenv("VERIF_SEED"), "%d", &seed)
	cb, err := os.ReadFile(filepath.Join(verifDir, "claims", id+".json"))
	if err != nil {
		fmt.Fprintln(os.Stderr, "no claim file:", err)
		return 2
	}
	var claim Claim
	if err := json.Unmarshal(cb, &claim); err != nil {
		fmt.Fprintln(os.Stderr, "claim file:", err)
		return 2
	}
	specs := NewSpecSet()
	tfiles, _ := filepath.Glob(filepath.Join(verifDir, "contracts", "trusted", "*.spec"))
	sort.Strings(tfiles)
	for _, f := range tfiles {
		// "-- external-module M": assumed contracts for module M as a dependency; when M itself is under
		// verification its own (verified) contract files apply instead
		if b, err := os.ReadFile(f); err == nil {
			skip := false
			for _, l := range strings.Split(string(b), "\n") {
				if strings.HasPrefix(l, "-- external-module ") {
					m := strings.TrimSpace(strings.TrimPrefix(l, "-- external-module "))
					for _, u := range claim.Units {
						if u.Module == m {
							skip = true
						}
					}
				}
			}
			// "-- only-for-claims C13 C14": an interface-level model used by these claims only (the package it describes
			// has verified contracts of its own, which apply in every other claim)
			for _, l := range strings.Split(string(b), "\n") {
				if strings.HasPrefix(l, "-- only-for-claims ") {
					skip = true
					for _, c := range strings.Fields(strings.TrimPrefix(l, "-- only-for-claims ")) {
						if c == claim.ID {
							skip = false
						}
					}
				}
			}
			if skip {
				continue
			}
		}
		if err := specs.LoadFile(f, "", true); err != nil {
			fmt.Fprintln(os.Stderr, "trusted contracts:", err)
			return 2
		}
	}
	var engines []*Engine
	var internalErrs []string
	for _, u := range claim.Units {
		var ff *regexp.Regexp
		if claim.ContractFiles != "" {
			ff = regexp.MustCompile(claim.ContractFiles)
		}
		e, err := LoadEngine(repo, u.Module, u.Packages, specs, ff)
		if err != nil {
			// a tree that does not load cannot be verified: report as violation without input
			internalErrs = append(internalErrs, fmt.Sprintf("load %s %v: %v", u.Module, u.Packages, err))
			continue
		}
		engines = append(engines, e)
	}
	var pats []*regexp.Regexp
	for _, p := range claim.Functions {
		pats = append(pats, regexp.MustCompile("^(?:"+p+")$"))
	}
	var onlyRe *regexp.Regexp
	if only != "" {
		onlyRe = regexp.MustCompile(only)
	}
	var keys []string
	for k, c := range specs.Funcs {
		if c.Trusted {
			continue
		}
		for _, p := range pats {
			if p.MatchString(k) {
				if onlyRe == nil || onlyRe.MatchString(k) {
					keys = append(keys, k)
				}
				break
			}
		}
	}
	sort.Strings(keys)
	var results []*FnResult
	var all []*Obligation
	for _, k := range keys {
		var eng *Engine
		for _, e := range engines {
			if e.fnIdx[strings.SplitN(k, "#", 2)[0]] != nil {
				eng = e
				break
			}
		}
		if eng == nil {
			if len(engines) > 0 {
				eng = engines[0]
			} else {
				continue
			}
		}
		rs := eng.Translate(k, specs.Funcs[k])
		results = append(results, rs...)
		var kre *regexp.Regexp
		if claim.Kinds != "" {
			kre = regexp.MustCompile("^(?:" + claim.Kinds + ")$")
		}
		for _, r := range rs {
			if kre != nil {
				// the claim consists of the obligations of these kinds; the others stay in the run because
				// each obligation is proved under the earlier ones as hypotheses: a failing one would make
				// the claimed ones vacuous, so it is reported too (marked as a hypothesis)
				for _, o := range r.Obls {
					if !kre.MatchString(o.Kind) {
						o.Hyp = true
					}
				}
			}
			all = append(all, r.Obls...)
		}
	}
	// obligation names are identifiers (file names, known findings): they must be unique
	seenName := map[string]int{}
	for _, o := range all {
		seenName[o.Name]++
		if k := seenName[o.Name]; k > 1 {
			o.Name = fmt.Sprintf("%s#dup%d", o.Name, k)
		}
	}
	if dump != "" {
		re := regexp.MustCompile(dump)
		for _, o := range all {
			if re.MatchString(o.Name) {
				fmt.Println(o.smt)
			}
		}
		for _, r := range results {
			if r.Err != nil {
				fmt.Fprintf(os.Stderr, "TRANSLATION ERROR %s[%s]: %v\n", r.Key, r.Inst, r.Err)
			}
		}
		return 0
	}
	secs := 15
	if tier == "thorough" {
		secs = 60
	}
	knownObl := map[string]bool{}
	if tier != "thorough" {
		for _, k := range loadKnown() {
			if k.Prop == id {
				knownObl[k.Obl] = true
			}
		}
	}
	outDir := filepath.Join(verifDir, "out", id)
	os.RemoveAll(outDir)
	stats := solveAll(all, SolveOpts{Secs: secs, Agree: tier == "thorough", OutDir: outDir, Parallel: 16, Seed: seed, Known: knownObl})
	escalateCovers(all, stats)
	if v := os.Getenv("GOVC_SLOW"); v != "" {
		// diagnostics: obligations that needed more than the given number of seconds of solver time
		var lim float64
		fmt.Sscan(v, &lim)
		for _, o := range all {
			if o.Secs >= lim && o.Expect != "sat" {
				fmt.Fprintf(os.Stderr, "slow %6.1fs %-8s %-7s %s\n", o.Secs, o.Verdict, o.Solver, o.Name)
			}
		}
	}
	rep := buildReport(id, tier, seed, &claim, results, all, stats, internalErrs, engines, repo, time.Since(t0).Seconds(), list)
	return rep
}

// escalateCovers: a call-site cover pair whose "after" query is unsat (the callee's contract, or an assume, makes the
// continuation contradictory) but whose "before" query was not decided within the one-second budget is re-run with a
// longer budget on all solvers: if the call site turns out to be reachable the pair is a vacuity finding.
func escalateCovers(all []*Obligation, stats map[string]*solverStat) {
	byName := map[string]*Obligation{}
	for _, o := range all {
		byName[o.Name] = o
	}
	var wg sync.WaitGroup
	sem := make(chan struct{}, 16)
	for _, o := range all {
		i := strings.Index(o.Name, "::cover.after.")
		if i < 0 || o.Verdict != "unsat" {
			continue
		}
		b := byName[o.Name[:i]+"::cover.before."+o.Name[i+len("::cover.after."):]]
		if b == nil || b.Verdict == "sat" || b.Verdict == "unsat" || b.File == "" {
			continue
		}
		wg.Add(1)
		sem <- struct{}{}
		go func(b *Obligation) {
			defer wg.Done()
			defer func() { <-sem }()
			ctx, cancel := context.WithCancel(context.Background())
			defer cancel()
			type res struct {
				s, v, out string
				d         float64
			}
			ch := make(chan res, len(solvers))
			for _, sp := range solvers {
				sp := sp
				go func() {
					v, out, d := runSolver(sp, b.File, 20, ctx)
					ch <- res{sp.name, v, out, d}
				}()
			}
			for range solvers {
				r := <-ch
				b.Secs += r.d
				if r.v == "sat" || r.v == "unsat" {
					b.Verdict, b.Solver, b.Output = r.v, r.s, r.out
					return
				}
			}
		}(b)
	}
	wg.Wait()
}
