#!/bin/bash
# usage: seed_rn.sh <property id> [round]   -- confirms and checks the three round-2 seeds in /tmp/mut/<id>r2.out
id=$1; rd=${2:-3}
for k in 1 2 3; do
  d=/tmp/mut/${id}r${rd}.out/$k
  [ -f $d/patch.diff ] || { echo "$id-r${rd}-$k: no patch"; continue; }
  demo=$(ls $d/*_test.go | head -1)
  # destination path inside the repo: first backticked path ending in _test.go in notes.md, else module/pkg of the patched file
  dest=$(grep -o '`[a-zA-Z0-9_./-]*_test\.go`' $d/notes.md | tr -d '`' | grep "/" | head -1)
  if [ -z "$dest" ]; then
    f=$(grep '^+++ b/' $d/patch.diff | head -1 | sed 's#+++ b/##'); dest=$(dirname $f)/$(basename $demo)
  fi
  module=$(echo $dest | cut -d/ -f1)
  pkgdir=$(dirname ${dest#$module/})
  tn=$(grep -o "func Test[A-Za-z0-9_]*" $demo | head -1 | sed 's/func //')
  echo "== $id-r${rd}-$k dest=$dest module=$module pkg=./$pkgdir test=$tn"
  /verif/tools/seed_confirm.sh $id-r${rd}-$k $d/patch.diff $demo $dest $module -run "$tn" ./$pkgdir 2>&1 | tail -2
  [ -d /verif/seeded/$id-r${rd}-$k ] && /verif/tools/seed_check.sh $id-r${rd}-$k $id 2>&1 | grep -E "VIOLATION|replay:|exit" | cut -c1-230 | head -4
done
