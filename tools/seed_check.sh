#!/bin/bash
# usage: seed_check.sh <seed name> <property id> [quick|thorough]
# Applies /verif/seeded/<name>/patch.diff to /repo, runs the property's check, reverts, and records
# which obligations caught it in meta.json ("detected").
name=$1; prop=$2; tier=${3:-quick}
d=/verif/seeded/$name
[ -z "$(git -C /repo status --porcelain)" ] || { echo "/repo not clean"; exit 2; }
git -C /repo apply "$d/patch.diff" || { echo "patch does not apply"; exit 3; }
cp /verif/evidence/$prop.json /tmp/evidence.$prop.save 2>/dev/null
out=$(cd /verif && ./check "$prop" "$tier" 2>&1); rc=$?
git -C /repo checkout -- . ; git -C /repo clean -fdq
# evidence must describe the unchanged tree: restore what the last clean run wrote
[ -f /tmp/evidence.$prop.save ] && mv /tmp/evidence.$prop.save /verif/evidence/$prop.json
echo "$out" | grep -E 'VIOLATION|replay: ' | head -12
echo "exit $rc"
python3 - "$d" "$prop" "$rc" <<PY "$out"
import json,sys,re,os
d,prop,rc=sys.argv[1],sys.argv[2],int(sys.argv[3])
out=sys.argv[4] if len(sys.argv)>4 else ""
mp=os.path.join(d,'meta.json')
m=json.load(open(mp)) if os.path.exists(mp) else {}
obl=re.findall(r'VIOLATION property=\S+ replay=\S+ obligation=(\S+)( no-failing-input-found)?',out)
m.setdefault('property',prop)
m['detected']= rc==1 and len(obl)>0
m['detected_by']=[o[0]+(' (no-failing-input-found)' if o[1] else ' (replayed on the real code)') for o in obl][:8]
m['check_cmd']='./check %s quick'%prop
json.dump(m,open(mp,'w'),indent=1)
PY
