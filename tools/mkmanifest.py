#!/usr/bin/env python3
# Generates /verif/MANIFEST.json from tools/manifest_src.json (claimed checks + not-applicable reasons).
import json,subprocess
src=json.load(open('/verif/tools/manifest_src.json'))
base=json.load(open('/root/.vp/BASELINE.json'))
commits=subprocess.check_output(['git','-C','/repo','log','--format=%h %s']).decode().splitlines()
hook=[c.split()[0] for c in commits if c.split(' ',1)[1].startswith('verif:')]
checks=[]
for c in src['checks']:
    checks.append({
     "property_id":c['id'],"quick_cmd":"./check %s quick"%c['id'],"thorough_cmd":"./check %s thorough"%c['id'],
     "evidence_file":"/verif/evidence/%s.json"%c['id'],"replay_cmd_template":"./check --replay {path}","engine":"govc",
     "level_claimed":{"category":"proof","text":c['text'],"design_ref":c.get('design_ref','DESIGN.md §5')},
     "level_note":c['note'],"technique":c.get('technique',"contracts on the real Go functions (guarded comment files in /repo) + self-generated weakest-precondition VCs over go/ssa, discharged by z3 4.8.12 / z3 5.1.0 / cvc5 1.0.3; counterexamples replayed on the real code")})
claimed={c['id'] for c in src['checks']}
na=[{"property_id":k,"reason":v} for k,v in src['not_applicable'].items() if k not in claimed]
m={"version":1,
 "setup_cmd":"cd /verif/govc && GOFLAGS=-mod=mod GOPROXY=off GOSUMDB=off GOTOOLCHAIN=local GOWORK=off go build -o ../bin/govc .",
 "hooks":{"guard":"verif","enable":"go build/test -tags verif (contract files zz_contracts*_verif.go are comment-only, zz_roundtrip_verif.go holds lemma functions, kvstore/zz_hook_verif.go is the Enqueue yield point used by the C08 replay; checks load packages with -tags=verif)","baseline_off_cmd":base['cmd'],"source_commits":hook,"add_only":True},
 "engines":[{"name":"govc","path":"/verif/govc","serves_properties":sorted(claimed),"kind_free_text":"contract-based deductive verifier for Go written for this task: go/ssa -> weakest-precondition style VCs (SMT-LIB), z3/cvc5 back ends, overlay replay of counterexamples"}],
 "checks":checks,"not_applicable":na,"notes":src.get('notes','')}
json.dump(m,open('/verif/MANIFEST.json','w'),indent=1)
print(len(checks),'checks,',len(na),'not applicable')
