#!/bin/bash
# usage: seed_confirm.sh <name> <patch.diff> <demo_test.go> <dest path of demo inside repo> <module dir> <go test args...>
# Confirms a seeded change in a scratch worktree of /repo HEAD: demo passes without the patch, existing
# tests of the module pass with it, demo fails with it. On success stores it under /verif/seeded/<name>/.
set -u
name=$1; patch=$2; demo=$3; dest=$4; module=$5; shift 5
export GOFLAGS=-mod=mod GOPROXY=off GOSUMDB=off GOTOOLCHAIN=local
W=$(mktemp -d /tmp/seedw.XXXX)
git -C /repo worktree add --detach "$W/r" HEAD >/dev/null 2>&1 || { echo "worktree failed"; exit 2; }
cleanup() { git -C /repo worktree remove --force "$W/r" >/dev/null 2>&1; rm -rf "$W"; }
trap cleanup EXIT
cp "$demo" "$W/r/$dest"
( cd "$W/r/$module" && go test -vet=off -count=1 "$@" ) > "$W/demo_without.log" 2>&1; r0=$?
( cd "$W/r" && git apply "$patch" ) || { echo "PATCH DOES NOT APPLY"; exit 3; }
( cd "$W/r/$module" && go build ./... ) > "$W/build.log" 2>&1 || { echo "DOES NOT COMPILE"; cat "$W/build.log"; exit 4; }
( cd "$W/r/$module" && go test -vet=off -count=1 "$@" ) > "$W/demo_with.log" 2>&1; r1=$?
rm "$W/r/$dest"
( cd "$W/r/$module" && go test -vet=off -count=1 ./... ) > "$W/suite.log" 2>&1; r2=$?
# known pre-existing failure in this sandbox: runtime/timed TestTimedExecutor_MemLeak (fails on the unmodified tree too)
fails=$(grep -E '^(--- FAIL|FAIL)' "$W/suite.log" | grep -v -E 'TestTimedExecutor_MemLeak|runtime/timed|^FAIL$' | head -5)
echo "demo without patch: exit $r0 ; demo with patch: exit $r1 ; suite with patch: exit $r2 ; unexpected suite failures: [${fails}]"
if [ $r0 -eq 0 ] && [ $r1 -ne 0 ] && [ -z "$fails" ]; then
  d=/verif/seeded/$name; mkdir -p "$d"
  cp "$patch" "$d/patch.diff"; cp "$demo" "$d/$(basename "$dest")"
  tail -5 "$W/demo_with.log" > "$d/demo_with_patch.log"
  echo "CONFIRMED -> $d"
  exit 0
fi
echo "NOT CONFIRMED"; tail -20 "$W/demo_without.log"; tail -20 "$W/demo_with.log"; exit 1
