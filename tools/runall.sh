#!/bin/bash
# runs the quick tier of every claimed check and prints one line per check (plus VIOLATION lines)
cd /verif
for p in $(python3 -c "import json;print(' '.join(c['property_id'] for c in json.load(open('/verif/MANIFEST.json'))['checks']))"); do ./check $p quick 2>&1 | grep -E "^VIOLATION|quick:" ; done
